//! verif-attach: file=crates/libs/anapaya-edge-tun/src/fragmenting.rs crate=anapaya-edge-tun mod=verif_c17
//!
//! C17 — tunnel reassembly emits only intact packets, at most once, in any frame order.
//! Injected as a child module of `fragmenting`, so it drives the private `DefragQueue` /
//! `DefragmenterInner` with their real 65 535-byte assembly slots.
#![allow(dead_code, unused_imports, clippy::all)]
use super::*;

/// largest fragment payload a harness frame may carry (> MIN_PAYLOAD_SIZE = 256 so that several
/// window sizes, and last fragments longer than the window, are inside the bound)
const PAY: usize = 300;

fn inc_stub<P: prometheus::core::Atomic>(_c: &prometheus::core::GenericCounter<P>) {}
fn inc_by_stub<P: prometheus::core::Atomic>(_c: &prometheus::core::GenericCounter<P>, _v: P::T) {}

/// Metrics objects are never dereferenced: every counter method the module calls is stubbed.
fn null_defrag_metrics() -> std::mem::ManuallyDrop<DefragmentMetrics> {
    std::mem::ManuallyDrop::new(unsafe { std::mem::MaybeUninit::zeroed().assume_init() })
}

#[derive(Clone, Copy)]
struct AnyFrame {
    off: usize,
    len: usize,
    last: bool,
    flags: u16,
}

/// Scalar frame parameters are drawn before the bulk payload bytes (replay ordering rule of
/// DESIGN.md 1.2: values the solver may slice away come last).
fn any_frame_params() -> AnyFrame {
    let len: usize = kani::any();
    kani::assume(len <= PAY);
    let off: u16 = kani::any();
    let last: bool = kani::any();
    let reserved: u16 = kani::any();
    let flags = if last { FragmentFlags::LAST as u16 | (reserved & 0x7fff) } else { reserved & 0x7fff };
    AnyFrame { off: off as usize, len, last, flags }
}

fn mk_frame<'a>(buf: &'a [u8; PAY], so: u64, d: &AnyFrame) -> FragmentFrameRef<'a> {
    let header = FragmentFrameHeader { stream_offset: so, frame_offset: d.off as u16, flags: d.flags };
    FragmentFrameRef { header, fragment: &buf[..d.len] }
}

/// K arbitrary frames into one slot; if the K-th completes a packet, a symbolic byte position of
/// the emitted payload must carry the byte of an accepted frame of this packet covering it.
fn integrity<const K: usize>() {
    let mut q = DefragQueue::new();
    let so: u64 = kani::any();
    let j: usize = kani::any();
    let mut ds = [AnyFrame { off: 0, len: 0, last: false, flags: 0 }; K];
    let mut k = 0;
    while k < K {
        ds[k] = any_frame_params();
        k += 1;
    }
    let bufs: [[u8; PAY]; K] = kani::any();
    let mut covered = false;
    let mut k = 0;
    while k < K {
        let d = ds[k];
        let f = mk_frame(&bufs[k], so, &d);
        if k == 0 {
            q.init(&f);
        }
        let r = q.ingest_frame(&f);
        match r {
            Ok(None) => {
                kani::assume(k + 1 < K);
                if d.off <= j && j < d.off + d.len {
                    covered = true;
                }
            }
            Ok(Some(p)) => {
                kani::assume(k + 1 == K);
                kani::assume(j < p.payload.len());
                if d.off <= j && j < d.off + d.len {
                    covered = true;
                }
                kani::cover!(K > 1, "packet completed by the final frame");
                assert!(covered, "emitted byte not covered by any accepted frame of this packet");
                return;
            }
            Err(_) => {
                // a rejected frame contributes nothing; the slot may have been given up
                kani::assume(k + 1 < K);
            }
        }
        k += 1;
    }
}

// verif: prop=C17 tier=quick cap=400 bound="one slot (real 65535-byte buffer), 2 arbitrary frames: any offset/LAST/reserved bits, payload length <= 300, any bytes" fns="DefragQueue::{new,init,ingest_frame} and its completion test" stubs="none"
#[kani::proof]
#[kani::unwind(3)]
fn c17_integrity_k2() {
    integrity::<2>()
}

// verif: prop=C17 tier=quick cap=900 bound="one slot, 3 arbitrary frames (rejected frames interleaved), payload length <= 300" fns="DefragQueue::{new,init,ingest_frame} and its completion test" stubs="none"
#[kani::proof]
#[kani::unwind(4)]
fn c17_integrity_k3() {
    integrity::<3>()
}

// verif: prop=C17 tier=thorough cap=3000 mem=24 bound="one slot, 4 arbitrary frames, payload length <= 300" fns="DefragQueue::{new,init,ingest_frame} and its completion test" stubs="none"
#[kani::proof]
#[kani::unwind(5)]
fn c17_integrity_k4() {
    integrity::<4>()
}

/// Same obligation one level up: frames of two packets (two stream offsets) through the real
/// queue selection with Q slots; a packet emitted for stream `so` only contains bytes of accepted
/// frames carrying `so` that arrived since the slot was (re)initialised for it.
fn integrity_defragmenter<const K: usize, const Q: usize>() {
    let m = null_defrag_metrics();
    let mut d = DefragmenterInner { queues: Vec::new(), last_histogram_update: unsafe { std::mem::zeroed() } };
    let mut i = 0;
    while i < Q {
        d.queues.push(DefragQueue::new());
        i += 1;
    }
    let sos: [u64; 2] = kani::any();
    kani::assume(sos[0] != sos[1] && sos[0] != u64::MAX && sos[1] != u64::MAX);
    let bufs: [[u8; PAY + 16]; K] = kani::any();
    let j: usize = kani::any();
    let watch = sos[0];
    let mut covered = false;
    let mut k = 0;
    while k < K {
        let which: bool = kani::any();
        let so = if which { sos[1] } else { sos[0] };
        let len: usize = kani::any();
        kani::assume(len <= PAY);
        let off: u16 = kani::any();
        let last: bool = kani::any();
        let mut raw = bufs[k];
        let h = FragmentFrameHeader { stream_offset: so, frame_offset: off, flags: if last { FragmentFlags::LAST as u16 } else { 0 } };
        h.copy_to_slice(&mut raw[..16]);
        // a slot evicted and re-initialised for `watch` starts a new packet: coverage restarts
        let had_slot = d.queues.iter().any(|q| q.stream_offset == watch && !q.is_idle());
        let r = d.recv_fallible(&m, &raw[..16 + len]);
        let single = last && off == 0;
        match r {
            Ok(None) => {
                kani::assume(k + 1 < K);
                if so == watch {
                    if !had_slot {
                        covered = false;
                    }
                    if (off as usize) <= j && j < off as usize + len {
                        covered = true;
                    }
                }
            }
            Ok(Some(p)) => {
                kani::assume(k + 1 == K && so == watch && !single);
                kani::assume(j < p.payload.len());
                assert!(p.stream_offset == watch);
                if !had_slot {
                    covered = false;
                }
                if (off as usize) <= j && j < off as usize + len {
                    covered = true;
                }
                kani::cover!(true, "multi-frame packet completed through the defragmenter");
                assert!(covered, "emitted byte not covered by an accepted frame of the same packet");
                std::mem::forget(d);
                return;
            }
            Err(_) => {
                kani::assume(k + 1 < K);
                if so == watch && !d.queues.iter().any(|q| q.stream_offset == watch && !q.is_idle()) {
                    covered = false;
                }
            }
        }
        k += 1;
    }
    std::mem::forget(d);
}

// verif: prop=C17 tier=off cap=3000 mem=24 cbmc_args="--arrays-uf-always" bound="DefragmenterInner with 2 slots, 3 arbitrary frames over 2 stream offsets" fns="DefragmenterInner::{recv_fallible,select_queue},DefragQueue::*" stubs="prometheus counters inc/inc_by -> no-op"
#[kani::proof]
#[kani::unwind(4)]
#[kani::stub(prometheus::core::GenericCounter::inc, inc_stub)]
#[kani::stub(prometheus::core::GenericCounter::inc_by, inc_by_stub)]
fn c17_interleave_q2_k3() {
    integrity_defragmenter::<3, 2>()
}

/// Totality and bounded state: arbitrary byte strings as frames never panic, never change the
/// number of slots, and a returned packet never exceeds MAX_PACKET_SIZE.
fn total<const K: usize, const Q: usize, const FR: usize>() {
    let m = null_defrag_metrics();
    let mut d = DefragmenterInner { queues: Vec::new(), last_histogram_update: unsafe { std::mem::zeroed() } };
    let mut i = 0;
    while i < Q {
        d.queues.push(DefragQueue::new());
        i += 1;
    }
    let mut lens = [0usize; K];
    let mut k = 0;
    while k < K {
        lens[k] = kani::any();
        kani::assume(lens[k] <= FR + 16);
        k += 1;
    }
    let bufs: [[u8; PAY + 16]; K] = kani::any();
    let mut k = 0;
    while k < K {
        let len = lens[k];
        let r = d.recv_fallible(&m, &bufs[k][..len]);
        if let Ok(Some(p)) = &r {
            assert!(p.payload.len() <= MAX_PACKET_SIZE);
        }
        if len < 16 {
            assert!(matches!(r, Err(DefragmentInsertError::InvalidHeader)));
        }
        kani::cover!(matches!(r, Ok(None)), "frame stored in a slot");
        assert!(d.queues.len() == Q);
        k += 1;
    }
    std::mem::forget(d);
}

// verif: prop=C17 tier=off cap=3000 mem=30 cbmc_args="--arrays-uf-always" bound="2 slots, 3 arbitrary byte strings <= 316 B as frames through recv_fallible (incl. shorter than a header)" fns="DefragmenterInner::{recv_fallible,select_queue},FragmentFrameRef::from_slice,DefragQueue::{init,ingest_frame}" stubs="prometheus counters inc/inc_by -> no-op"
#[kani::proof]
#[kani::unwind(4)]
#[kani::stub(prometheus::core::GenericCounter::inc, inc_stub)]
#[kani::stub(prometheus::core::GenericCounter::inc_by, inc_by_stub)]
fn c17_total_q2_k3() {
    total::<3, 2, 300>()
}

/// Slot choice from arbitrary slot states (Q slots with arbitrary stream offsets and idle
/// flags): a frame is refused only when no slot is idle, none carries its stream offset and it
/// is older than every slot; otherwise the chosen slot carries the frame's stream offset and, if
/// it was not already that packet's slot, has been re-initialised (empty mask, no sizes).
fn select_queue_step<const Q: usize>() {
    let m = null_defrag_metrics();
    let mut d = DefragmenterInner { queues: Vec::new(), last_histogram_update: unsafe { std::mem::zeroed() } };
    let mut offs = [0u64; Q];
    let mut idle = [false; Q];
    let mut i = 0;
    while i < Q {
        let mut q = DefragQueue::new();
        offs[i] = kani::any();
        idle[i] = kani::any();
        q.stream_offset = offs[i];
        q.idle = idle[i];
        q.recv_mask = kani::any();
        q.final_packet_size = if kani::any() { Some(kani::any()) } else { None };
        q.expected_frames = if kani::any() { Some(kani::any()) } else { None };
        d.queues.push(q);
        i += 1;
    }
    let so: u64 = kani::any();
    let h = FragmentFrameHeader { stream_offset: so, frame_offset: kani::any(), flags: kani::any() };
    let empty: [u8; 0] = [];
    let f = FragmentFrameRef { header: h, fragment: &empty };
    let mut existing = false;
    let mut any_idle = false;
    let mut older_than_all = true;
    let mut i = 0;
    while i < Q {
        if offs[i] == so {
            existing = true;
        }
        if idle[i] {
            any_idle = true;
        }
        if so >= offs[i] {
            older_than_all = false;
        }
        i += 1;
    }
    let r = d.select_queue(&m, &f);
    match r {
        None => {
            kani::cover!(true, "frame refused as too old");
            assert!(!existing && !any_idle && older_than_all, "frame refused although a slot was available");
        }
        Some(q) => {
            assert!(q.stream_offset == so, "chosen slot carries another packet's stream offset");
            if !existing {
                kani::cover!(!any_idle, "busy slot evicted");
                assert!(!q.idle && q.recv_mask[0] == 0 && q.recv_mask[1] == 0, "re-used slot not re-initialised");
                assert!(q.final_packet_size.is_none() && q.expected_frames.is_none() && q.frame_window_size.is_none() && q.last_frame_offset.is_none(), "re-used slot keeps sizes of the previous packet");
                assert!(!(!any_idle && older_than_all), "frame older than every busy slot evicted one");
            }
        }
    }
    assert!(d.queues.len() == Q, "number of slots changed");
    std::mem::forget(d);
}

// verif: prop=C17 tier=quick cap=600 bound="3 slots in arbitrary states, one arbitrary frame header" fns="DefragmenterInner::select_queue,DefragQueue::init" stubs="prometheus counters inc/inc_by -> no-op"
#[kani::proof]
#[kani::unwind(5)]
#[kani::stub(prometheus::core::GenericCounter::inc, inc_stub)]
#[kani::stub(prometheus::core::GenericCounter::inc_by, inc_by_stub)]
fn c17_select_queue_q3() {
    select_queue_step::<3>()
}

/// Honest sender: a packet of L bytes cut into n = ceil(L/W) frames by the documented protocol
/// (offset i*W, LAST on the final frame). N deliveries, each of a symbolic frame index (so any
/// order and any duplication), every frame delivered at least once: the packet comes out exactly
/// once and byte-identical; nothing else comes out. W is the minimum window (256): offsets are
/// then constants per frame index, which keeps the copies into the 64 KiB slot cheap for CBMC.
fn honest<const N: usize, const MAXF: usize, const CONTENT: bool>(fixed: Option<[usize; N]>) {
    const W: usize = MIN_PAYLOAD_SIZE;
    let l: usize = kani::any();
    kani::assume(l > W && l <= MAXF * W);
    let n = l.div_ceil(W);
    let so: u64 = kani::any();
    let j: usize = kani::any();
    kani::assume(j < l);
    let mut order = [0usize; N];
    let mut t = 0;
    while t < N {
        order[t] = match fixed {
            Some(o) => o[t],
            None => kani::any(),
        };
        kani::assume(order[t] < n);
        t += 1;
    }
    let data: [u8; 4 * W] = kani::any();
    let mut q = DefragQueue::new();
    let mut seen = [false; MAXF];
    let mut emitted = 0usize;
    let mut t = 0;
    while t < N {
        let i = order[t];
        seen[i] = true;
        // constant offset per branch
        let (off, full): (usize, &[u8]) = match i {
            0 => (0, &data[0..W]),
            1 => (W, &data[W..2 * W]),
            2 => (2 * W, &data[2 * W..3 * W]),
            _ => (3 * W, &data[3 * W..4 * W]),
        };
        let len = if i + 1 == n { l - off } else { W };
        let f = FragmentFrameRef {
            header: FragmentFrameHeader {
                stream_offset: so,
                frame_offset: off as u16,
                flags: if i + 1 == n { FragmentFlags::LAST as u16 } else { 0 },
            },
            fragment: &full[..len],
        };
        if t == 0 {
            q.init(&f);
        }
        match q.ingest_frame(&f) {
            Ok(Some(p)) => {
                emitted += 1;
                assert!(p.stream_offset == so);
                assert!(p.payload.len() == l, "reassembled length differs from the sent packet");
                if CONTENT {
                    assert!(p.payload[j] == data[j], "reassembled byte differs from the sent packet");
                }
                let mut x = 0;
                while x < MAXF {
                    if x < n {
                        assert!(seen[x], "packet emitted before all of its frames arrived");
                    }
                    x += 1;
                }
            }
            Ok(None) => {}
            Err(e) => {
                assert!(
                    matches!(e, DefragmentInsertError::Duplicate(_) | DefragmentInsertError::QueueNotAccepting),
                    "honest frame rejected"
                );
            }
        }
        t += 1;
    }
    let mut all = true;
    let mut x = 0;
    while x < MAXF {
        if x < n && !seen[x] {
            all = false;
        }
        x += 1;
    }
    assert!(emitted <= 1, "packet emitted twice");
    if all {
        kani::cover!(n == MAXF, "largest frame count delivered completely");
        assert!(emitted == 1, "all frames delivered but packet not emitted");
    }
}

// verif: prop=C17 tier=quick cap=900 bound="honest sender, window 256, packet of 257..768 bytes (2..3 frames), 4 deliveries in any order with duplicates: emitted exactly once, when and only when all frames arrived, with the sent length (contents: c17_honest_bytes_*)" fns="DefragQueue::{init,ingest_frame}" stubs="none (frames built from the module's documented wire protocol)"
#[kani::proof]
#[kani::unwind(5)]
fn c17_honest_f3_n4() {
    honest::<4, 3, false>(None)
}

// verif: prop=C17 tier=thorough cap=3000 mem=24 bound="honest sender, window 256, packet of 257..1024 bytes (2..4 frames), 5 deliveries in any order with duplicates" fns="DefragQueue::{init,ingest_frame}" stubs="none"
#[kani::proof]
#[kani::unwind(6)]
fn c17_honest_f4_n5() {
    honest::<5, 4, false>(None)
}

// verif: prop=C17 tier=thorough cap=3000 mem=30 cbmc_args="--arrays-uf-always" bound="honest sender, window 256, packet of 257..768 bytes (2..3 frames), 4 deliveries in any order with duplicates: the emitted packet is byte-identical to the sent one" fns="DefragQueue::{init,ingest_frame}" stubs="none"
#[kani::proof]
#[kani::unwind(5)]
fn c17_honest_bytes_f3_n4() {
    honest::<4, 3, true>(None)
}

/// Copy kernel, one step from an arbitrary slot state (arbitrary buffer contents, masks, window,
/// sizes): an accepted frame writes exactly its fragment at its offset and nothing else; a
/// rejected frame writes nothing; an emitted packet is the slot's buffer from byte 0.
/// Together with c17_integrity_* (every emitted position is covered by an accepted frame of the
/// packet) this gives: every emitted byte is the byte of the latest accepted frame covering it.
/// The end-to-end byte comparison in one harness (honest::<_, _, true>) exceeds 24 GB in CBMC
/// because of the symbolic-length copies into the 64 KiB slot, hence the decomposition.
fn copy_step<const L: usize>() {
    let so: u64 = kani::any();
    let mut d = any_frame_params();
    d.len = L; // fragment length fixed per instantiation: a constant-length copy at a symbolic offset stays cheap
    let i: usize = kani::any();
    kani::assume(i < MAX_PACKET_SIZE);
    let mut q = DefragQueue::new();
    q.stream_offset = kani::any();
    q.recv_mask = kani::any();
    q.idle = kani::any();
    q.next_frame_offset = kani::any();
    q.frame_window_size = if kani::any() { Some(kani::any()) } else { None };
    q.final_packet_size = if kani::any() { Some(kani::any()) } else { None };
    q.expected_frames = if kani::any() { Some(kani::any()) } else { None };
    q.last_frame_offset = if kani::any() { Some(kani::any()) } else { None };
    if let Some(fps) = q.final_packet_size {
        kani::assume(fps <= MAX_PACKET_SIZE); // set only from offset + len <= MAX_PACKET_SIZE
    }
    if let Some(w) = q.frame_window_size {
        // representation invariant: a window below the minimum is recorded only together with
        // giving the slot up (idle), and an idle slot accepts nothing until init() clears it
        kani::assume(w >= MIN_PAYLOAD_SIZE || q.idle);
    }
    let seed: u8 = kani::any();
    let pos: usize = kani::any();
    kani::assume(pos < MAX_PACKET_SIZE);
    q.assembly_buffer[pos] = seed; // one arbitrary byte at an arbitrary place: enough to tell "kept" from "zeroed"
    let buf: [u8; PAY] = kani::any();
    let old = q.assembly_buffer[i];
    let f = mk_frame(&buf, so, &d);
    let base = q.assembly_buffer.as_ptr() as usize;
    let r = q.ingest_frame(&f);
    let (accepted, emitted_len) = match &r {
        Ok(Some(p)) => {
            assert!(p.payload.as_ptr() as usize == base, "emitted packet does not start at the slot buffer");
            assert!(p.payload.len() <= MAX_PACKET_SIZE);
            (true, Some(p.payload.len()))
        }
        Ok(None) => (true, None),
        Err(_) => (false, None),
    };
    let _ = emitted_len;
    let now = q.assembly_buffer[i];
    if accepted && d.off <= i && i < d.off + d.len {
        kani::cover!(true, "accepted frame covers the observed byte");
        assert!(now == buf[i - d.off], "accepted frame's byte not stored at offset + index");
    } else {
        kani::cover!(!accepted, "rejected frame");
        assert!(now == old, "slot byte outside the accepted fragment changed");
    }
}

// verif: prop=C17 tier=quick cap=900 cbmc_args="--arrays-uf-always" bound="one ingest step from an arbitrary slot state; fragment of exactly 256 B (the minimum window) at any offset; observed byte anywhere in the 65535-byte slot" fns="DefragQueue::ingest_frame (copy and emission)" stubs="none"
#[kani::proof]
#[kani::unwind(3)]
fn c17_copy_step_l256() {
    copy_step::<256>()
}

// verif: prop=C17 tier=quick cap=900 cbmc_args="--arrays-uf-always" bound="one ingest step from an arbitrary slot state; fragment of exactly 7 B (a short last fragment) at any offset" fns="DefragQueue::ingest_frame (copy and emission)" stubs="none"
#[kani::proof]
#[kani::unwind(3)]
fn c17_copy_step_l7() {
    copy_step::<7>()
}

/// Completion, one step from an arbitrary slot state (any receive mask, any window >= 256, any
/// last-frame offset, expected count consistent with them or still unknown): a packet is emitted
/// only when the last frame and *every* frame index in front of it are in the receive mask, and
/// its length is the one the last frame announced. With "bit i set => frame i was stored since
/// init" (c17_copy_step_*, c17_integrity_*) this carries the integrity argument to any number of
/// frames (up to the 256 the mask can hold), not just the 2-4 frames the sequence harnesses run.
fn completion_step() {
    let so: u64 = kani::any();
    let d = any_frame_params();
    let b: usize = kani::any();
    let mut q = DefragQueue::new();
    q.stream_offset = so;
    q.idle = false;
    q.recv_mask = kani::any();
    let w: usize = kani::any();
    kani::assume(w >= MIN_PAYLOAD_SIZE && w <= MAX_PACKET_SIZE);
    let have_w: bool = kani::any();
    let have_last: bool = kani::any();
    let lo: u16 = kani::any();
    let ll: usize = kani::any();
    kani::assume(ll <= MAX_PACKET_SIZE && lo as usize + ll <= MAX_PACKET_SIZE);
    q.frame_window_size = if have_w { Some(w) } else { None };
    q.last_frame_offset = if have_last { Some(lo) } else { None };
    q.final_packet_size = if have_last { Some(lo as usize + ll) } else { None };
    // representation invariant: the last-frame bit is set exactly when the last frame is known
    let last_bit: BitmaskType = 1 << ((MAX_FRAMES - 1) % BITMASK_ENTRY_BITS);
    kani::assume(((q.recv_mask[BITMASK_ENTRY_COUNT - 1] & last_bit) != 0) == have_last);
    // middle frames are only stored once the window is known
    if !have_w {
        kani::assume(q.recv_mask[0] == 0 && q.recv_mask[1] & !last_bit == 0);
    }
    // expected count: known only when window and last frame are, and then consistent with them
    let have_e: bool = kani::any();
    if have_w && have_last && have_e {
        kani::assume(lo as usize % w == 0);
        q.expected_frames = Some(lo as usize / w + 1);
    } else {
        q.expected_frames = None;
    }
    let buf: [u8; PAY] = kani::any();
    let f = mk_frame(&buf, so, &d);
    if let Ok(Some(p)) = q.ingest_frame(&f) {
        let plen = p.payload.len();
        let (Some(wn), Some(lon), Some(fin)) = (q.frame_window_size, q.last_frame_offset, q.final_packet_size) else {
            assert!(false, "packet emitted without knowing window, last offset and size");
            return;
        };
        kani::cover!(lon as usize / wn >= 130, "packet of more than 130 frames completed");
        kani::cover!(lon as usize / wn == 1, "two-frame packet completed");
        assert!(plen == fin, "emitted length differs from the size the last frame announced");
        assert!(q.recv_mask[BITMASK_ENTRY_COUNT - 1] & last_bit != 0, "packet emitted without its last frame");
        let frames_before_last = lon as usize / wn;
        if b < frames_before_last {
            let bit: BitmaskType = 1 << (b % BITMASK_ENTRY_BITS);
            assert!(q.recv_mask[b / BITMASK_ENTRY_BITS] & bit != 0, "packet emitted although a frame in front of the last one is missing");
        }
    }
}

// verif: prop=C17 tier=quick cap=900 bound="one ingest step from any slot state with up to 256 frames outstanding (any receive mask, window 256..65535, any last-frame offset/length), one arbitrary frame" fns="DefragQueue::ingest_frame (expected-frame computation and completion test)" stubs="none"
#[kani::proof]
#[kani::unwind(4)]
fn c17_completion_step() {
    completion_step()
}
