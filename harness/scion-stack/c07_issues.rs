//! verif-attach: file=crates/scion-stack/src/path/manager/issues.rs crate=scion-stack mod=verif_c07
//!
//! C07 — issue -> affected target and target/path matching. Penalties, decay (f32::powf),
//! re-ranking and "the very next send avoids it" are history clauses of a manager that this Kani
//! build cannot compile (DESIGN.md 4.1): not decided.
#![allow(dead_code, unused_imports, clippy::all)]
use sciparse::{
    dataplane_path::view::{ScionDpPathView, ScionDpPathViewRef},
    path::metadata::{InterfaceMetadata, PathMetadata, path_interface::PathInterface},
};

use super::*;

fn fp_stub(_dp: ScionDpPathViewRef<'_>, src: IsdAsn, _dst: IsdAsn) -> DpPathFingerprint {
    let mut b = [0u8; 32];
    b[0..8].copy_from_slice(&src.to_u64().to_be_bytes());
    unsafe { std::mem::transmute::<[u8; 32], DpPathFingerprint>(b) }
}

fn cp_stub(_p: &ScionPath) -> Result<sciparse::path::fingerprint::control_plane::PathFingerprint, sciparse::path::fingerprint::control_plane::FingerprintError> {
    Err(sciparse::path::fingerprint::control_plane::FingerprintError)
}

fn ia(x: u8) -> IsdAsn {
    IsdAsn::from_u64(0x1_0000_0000_0000 + (x % 4) as u64 + 1)
}

fn ia6(x: u8) -> IsdAsn {
    IsdAsn::from_u64(0x1_0000_0000_0000 + (x % 6) as u64 + 1)
}

// verif: prop=C07 tier=quick cap=600 bound="3-AS path A#e0 -> B#i1,B#e1 -> C#i2 with arbitrary interface ids; arbitrary Interface target (AS among 4, optional ingress, egress)" fns="IssueMarkerTarget::matches_path (Interface)" stubs="SHA-256 fingerprints -> cheap functions"
#[kani::proof]
#[kani::unwind(6)]
#[kani::stub(sciparse::path::fingerprint::data_plane::DpPathFingerprint::from_dp_path, fp_stub)]
#[kani::stub(sciparse::path::fingerprint::control_plane::PathFingerprint::try_from_scion_path, cp_stub)]
fn c07_interface_target_matches() {
    let ids: [u16; 4] = kani::any();
    let (a, b, c) = (ia(0), ia(1), ia(2));
    let ifs = vec![
        InterfaceMetadata::new_without_metadata(PathInterface { isd_asn: a, id: ids[0] }),
        InterfaceMetadata::new_without_metadata(PathInterface { isd_asn: b, id: ids[1] }),
        InterfaceMetadata::new_without_metadata(PathInterface { isd_asn: b, id: ids[2] }),
        InterfaceMetadata::new_without_metadata(PathInterface { isd_asn: c, id: ids[3] }),
    ];
    let md = PathMetadata { expiration: 0, mtu: 1500, interfaces: Some(ifs), epic_auth: None, notes: None };
    let p = ScionPath::new(a, c, ScionDpPathView::Empty, Some(md), None);
    let fp = p.fingerprint();
    let tx: u8 = kani::any();
    let target_as = ia(tx);
    let egress: u16 = kani::any();
    let ing: Option<u16> = kani::any();
    let t = IssueMarkerTarget::Interface { isd_asn: target_as, ingress_filter: ing, egress_filter: egress };
    let got = t.matches_path(&p, &fp);
    // reference: the (optional ingress, egress) pair is traversed at that AS; the source AS has
    // no ingress, the destination AS has no egress
    let want = if target_as == a {
        ing.is_none() && ids[0] == egress
    } else if target_as == b {
        ing.map_or(true, |i| i == ids[1]) && ids[2] == egress
    } else {
        false
    };
    kani::cover!(got, "match reachable");
    kani::cover!(!got && target_as == b, "transit AS not matched");
    assert!(got == want, "interface target matches a path that does not traverse it, or misses one that does");
    std::mem::forget(p);
}

// verif: prop=C07 tier=quick cap=600 bound="3-AS path with arbitrary interface ids; arbitrary FirstHop / LastHop targets (AS among 4, any interface id)" fns="IssueMarkerTarget::matches_path (FirstHop, LastHop),ScionPath::{first_egress_interface,last_ingress_interface}" stubs="SHA-256 fingerprints -> cheap functions"
#[kani::proof]
#[kani::unwind(6)]
#[kani::stub(sciparse::path::fingerprint::data_plane::DpPathFingerprint::from_dp_path, fp_stub)]
#[kani::stub(sciparse::path::fingerprint::control_plane::PathFingerprint::try_from_scion_path, cp_stub)]
fn c07_first_last_hop_targets() {
    let ids: [u16; 4] = kani::any();
    let (a, b, c) = (ia(0), ia(1), ia(2));
    let ifs = vec![
        InterfaceMetadata::new_without_metadata(PathInterface { isd_asn: a, id: ids[0] }),
        InterfaceMetadata::new_without_metadata(PathInterface { isd_asn: b, id: ids[1] }),
        InterfaceMetadata::new_without_metadata(PathInterface { isd_asn: b, id: ids[2] }),
        InterfaceMetadata::new_without_metadata(PathInterface { isd_asn: c, id: ids[3] }),
    ];
    let md = PathMetadata { expiration: 0, mtu: 1500, interfaces: Some(ifs), epic_auth: None, notes: None };
    let p = ScionPath::new(a, c, ScionDpPathView::Empty, Some(md), None);
    let fp = p.fingerprint();
    let t_as = ia(kani::any());
    let t_if: u16 = kani::any();
    let first = IssueMarkerTarget::FirstHop { isd_asn: t_as, egress_interface: t_if };
    let last = IssueMarkerTarget::LastHop { isd_asn: t_as, ingress_interface: t_if };
    let got_first = first.matches_path(&p, &fp);
    let got_last = last.matches_path(&p, &fp);
    kani::cover!(got_first, "first-hop target matches");
    kani::cover!(got_last, "last-hop target matches");
    assert!(got_first == (t_as == a && t_if == ids[0]), "first-hop target: a report that matches no path in use must change nothing, one that matches must be seen");
    assert!(got_last == (t_as == c && t_if == ids[3]), "last-hop target matching wrong");
    std::mem::forget(p);
}

// verif: prop=C07 tier=quick cap=900 bound="5-AS path A#e0 -> B#i1,#e1 -> C#i2,#e2 -> D#i3,#e3 -> E#i4 (three transit ASes) with arbitrary interface ids; arbitrary Interface target (AS among 6, optional ingress, egress)" fns="IssueMarkerTarget::matches_path (Interface)" stubs="SHA-256 fingerprints -> cheap functions"
#[kani::proof]
#[kani::unwind(10)]
#[kani::stub(sciparse::path::fingerprint::data_plane::DpPathFingerprint::from_dp_path, fp_stub)]
#[kani::stub(sciparse::path::fingerprint::control_plane::PathFingerprint::try_from_scion_path, cp_stub)]
fn c07_iface_target_5as() {
    let ids: [u16; 8] = kani::any();
    let asn = [ia6(0), ia6(1), ia6(2), ia6(3), ia6(4)];
    let owner = [0usize, 1, 1, 2, 2, 3, 3, 4];
    let mut ifs = Vec::with_capacity(8);
    let mut k = 0;
    while k < 8 {
        ifs.push(InterfaceMetadata::new_without_metadata(PathInterface { isd_asn: asn[owner[k]], id: ids[k] }));
        k += 1;
    }
    let md = PathMetadata { expiration: 0, mtu: 1500, interfaces: Some(ifs), epic_auth: None, notes: None };
    let p = ScionPath::new(asn[0], asn[4], ScionDpPathView::Empty, Some(md), None);
    let fp = p.fingerprint();
    let tx: u8 = kani::any();
    let target_as = ia6(tx);
    let egress: u16 = kani::any();
    let ing: Option<u16> = kani::any();
    let t = IssueMarkerTarget::Interface { isd_asn: target_as, ingress_filter: ing, egress_filter: egress };
    let got = t.matches_path(&p, &fp);
    // reference: the (optional ingress, egress) pair is traversed at that AS; the source AS has
    // no ingress, the destination AS has no egress
    let mut want = target_as == asn[0] && ing.is_none() && ids[0] == egress;
    let mut m = 1;
    while m < 4 {
        if target_as == asn[m] && ing.map_or(true, |i| i == ids[2 * m - 1]) && ids[2 * m] == egress {
            want = true;
        }
        m += 1;
    }
    kani::cover!(got && target_as == asn[3], "third transit AS matched");
    kani::cover!(!got && target_as == asn[2], "second transit AS not matched");
    assert!(got == want, "interface target matches a path that does not traverse it, or misses one that does");
    std::mem::forget(p);
}
