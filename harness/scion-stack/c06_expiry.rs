//! verif-attach: file=crates/scion-stack/src/path/manager/pathset.rs crate=scion-stack mod=verif_c06
//!
//! C06 — the one kernel of the path manager that CBMC reaches: expiry classification. The
//! manager itself (PathSet, MultiPathManager) cannot be compiled by this Kani build (ArcSwap,
//! tokio Notify/broadcast, scc::HashIndex - DESIGN.md 4.1), so the history clauses of C06 are
//! not decided here.
#![allow(dead_code, unused_imports, clippy::all)]
use sciparse::{
    core::{encode::WireEncode, view::View},
    dataplane_path::{
        standard::{
            model::{HopField, InfoField, Segment, StandardPath},
            types::{HopFieldFlags, HopFieldMac, InfoFieldFlags},
            view::StandardPathView,
        },
        view::{ScionDpPathView, ScionDpPathViewRef},
    },
};

use super::*;

fn fp_stub(dp: ScionDpPathViewRef<'_>, _src: IsdAsn, _dst: IsdAsn) -> DpPathFingerprint {
    let mut b = [0u8; 32];
    if let ScionDpPathViewRef::Standard(p) = dp {
        let h = p.hop_field(0).unwrap();
        b[0..2].copy_from_slice(&h.cons_egress().to_be_bytes());
    }
    unsafe { std::mem::transmute::<[u8; 32], DpPathFingerprint>(b) }
}

fn mk_path(src: IsdAsn, dst: IsdAsn, ts: u32, exp: [u8; 2]) -> ScionPath {
    let mut flags = InfoFieldFlags::empty();
    flags.set(InfoFieldFlags::CONS_DIR, true);
    let mac = HopFieldMac::zero();
    let hf = |i: u16, e: u16, x: u8| HopField { flags: HopFieldFlags::empty(), expiration_units: x, cons_ingress: i, cons_egress: e, mac };
    let mut hops = sciparse::reexport::tinyvec::TinyVec::new();
    hops.push(hf(0, 7, exp[0]));
    hops.push(hf(1, 0, exp[1]));
    let mut path = StandardPath::new_empty();
    path.segments.push(Segment { info_field: InfoField { flags, segment_id: 0, timestamp: ts }, hop_fields: hops });
    let bytes = match path.try_encode_to_vec() {
        Ok(b) => b.into_boxed_slice(),
        Err(_) => unreachable!(),
    };
    let view = match StandardPathView::try_from_boxed(bytes) {
        Ok(v) => ScionDpPathView::Standard(v),
        Err(_) => unreachable!(),
    };
    ScionPath::new(src, dst, view, None, None)
}

// verif: prop=C06 tier=quick cap=900 bound="2-hop path, every segment timestamp (u32), both hop expiry units (u8), every clock value (u32 s) and every threshold (u16 s)" fns="check_path_expiry,ScionPath::{expiration,is_expired},StandardPathView::expiration" stubs="DpPathFingerprint::from_dp_path (SHA-256) -> function of the first hop's egress"
#[kani::proof]
#[kani::unwind(17)]
#[kani::stub(sciparse::path::fingerprint::data_plane::DpPathFingerprint::from_dp_path, fp_stub)]
fn c06_expiry_kernel() {
    let src = IsdAsn::from_u64(0x1_0000_0000_0001);
    let dst = IsdAsn::from_u64(0x1_0000_0000_0002);
    let ts: u32 = kani::any();
    let exp: [u8; 2] = kani::any();
    let now_s: u32 = kani::any();
    let thr_s: u16 = kani::any();
    let now = SystemTime::UNIX_EPOCH + Duration::from_secs(now_s as u64);
    let p = mk_path(src, dst, ts, exp);
    let st = check_path_expiry(&p, now, Duration::from_secs(thr_s as u64));
    let Some(expiry) = p.expiration() else {
        assert!(false, "standard path without expiration");
        return;
    };
    let expiry = expiry as u64;
    // independent reading of the SCION rule: timestamp + (min exp + 1) * 24h/256, saturating at u32
    let m = if exp[0] < exp[1] { exp[0] } else { exp[1] } as u64;
    let rule = core::cmp::min(ts as u64 + ((m + 1) * 86400) / 256, u32::MAX as u64);
    assert!(expiry == rule, "path expiration differs from timestamp + (min ExpTime + 1) * 337.5 s");
    match st {
        ExpiryState::Valid => assert!(expiry > now_s as u64 + thr_s as u64, "path classified valid inside the refetch threshold"),
        ExpiryState::NearExpiry => {
            assert!(expiry > now_s as u64 && expiry <= now_s as u64 + thr_s as u64, "near-expiry classification wrong")
        }
        ExpiryState::Expired => assert!(expiry <= now_s as u64, "live path classified expired"),
    }
    kani::cover!(st == ExpiryState::NearExpiry, "near expiry reachable");
    assert!((st == ExpiryState::Expired) == (p.is_expired(now_s) == Some(true)), "classification disagrees with ScionPath::is_expired");
    std::mem::forget(p);
}
