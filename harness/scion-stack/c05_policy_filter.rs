//! verif-attach: file=crates/scion-stack/src/path/strategy.rs crate=scion-stack mod=verif_c05
//!
//! C05 — policy kernel: a policy that cannot be evaluated rejects; the strategy's predicate is
//! the conjunction of its policies; filtering keeps exactly the allowed paths, in order.
//! That every path the manager hands out went through this filter is a history clause of code
//! this Kani build cannot compile (DESIGN.md 4.1): not decided.
#![allow(dead_code, unused_imports, clippy::all)]
use std::borrow::Cow;

use sciparse::{
    dataplane_path::view::{ScionDpPathView, ScionDpPathViewRef},
    identifier::isd_asn::IsdAsn,
    path::fingerprint::data_plane::DpPathFingerprint,
};

use super::*;

fn fp_stub(_dp: ScionDpPathViewRef<'_>, src: IsdAsn, _dst: IsdAsn) -> DpPathFingerprint {
    let mut b = [0u8; 32];
    b[0..8].copy_from_slice(&src.to_u64().to_be_bytes());
    unsafe { std::mem::transmute::<[u8; 32], DpPathFingerprint>(b) }
}
fn cp_stub(_p: &ScionPath) -> Result<sciparse::path::fingerprint::control_plane::PathFingerprint, sciparse::path::fingerprint::control_plane::FingerprintError> {
    Err(sciparse::path::fingerprint::control_plane::FingerprintError)
}

/// A sciparse-level policy whose verdict is an arbitrary function of the path's source AS.
struct P {
    v: [u8; 2],
} // 0 = Ok(true), 1 = Ok(false), 2 = Err
impl sciparse::path::policy::PathPolicy for P {
    fn path_allowed(&self, path: &ScionPath) -> Result<bool, Cow<'static, str>> {
        match self.v[(path.src_ia().to_u64() & 1) as usize] % 3 {
            0 => Ok(true),
            1 => Ok(false),
            _ => Err(Cow::Borrowed("cannot evaluate")),
        }
    }
}

// verif: prop=C05 tier=quick cap=600 bound="two policies with arbitrary verdicts (allow / deny / cannot evaluate) per path, two paths" fns="PathStrategy::{add_policy,predicate,filter_inplace},blanket impl PathPolicy for sciparse policies (error => rejected)" stubs="SHA-256 fingerprints -> cheap functions"
#[kani::proof]
#[kani::unwind(5)]
#[kani::stub(sciparse::path::fingerprint::data_plane::DpPathFingerprint::from_dp_path, fp_stub)]
#[kani::stub(sciparse::path::fingerprint::control_plane::PathFingerprint::try_from_scion_path, cp_stub)]
fn c05_predicate_conjunction() {
    let v1: [u8; 2] = kani::any();
    let v2: [u8; 2] = kani::any();
    let mut st = PathStrategy::default();
    st.add_policy(P { v: v1 });
    st.add_policy(P { v: v2 });
    let a = IsdAsn::from_u64(0x1_0000_0000_0002);
    let b = IsdAsn::from_u64(0x1_0000_0000_0003);
    let d = IsdAsn::from_u64(0x1_0000_0000_0009);
    let mut paths = vec![
        ScionPath::new(a, d, ScionDpPathView::Empty, None, None),
        ScionPath::new(b, d, ScionDpPathView::Empty, None, None),
    ];
    let ok = |v: &[u8; 2], i: usize| v[i] % 3 == 0;
    let want0 = ok(&v1, 0) && ok(&v2, 0);
    let want1 = ok(&v1, 1) && ok(&v2, 1);
    assert!(st.predicate(&paths[0]) == want0, "predicate is not the conjunction of the policies (error = reject)");
    assert!(st.predicate(&paths[1]) == want1, "predicate is not the conjunction of the policies (error = reject)");
    st.filter_inplace(&mut paths);
    assert!(paths.len() == want0 as usize + want1 as usize, "filter kept a rejected path or dropped an allowed one");
    if want0 && !want1 {
        assert!(paths[0].src_ia() == a);
    }
    if !want0 && want1 {
        assert!(paths[0].src_ia() == b);
    }
    if want0 && want1 {
        assert!(paths[0].src_ia() == a && paths[1].src_ia() == b, "filter changed the order");
    }
    kani::cover!(paths.len() == 1, "one path filtered out");
    std::mem::forget(paths);
    std::mem::forget(st);
}

// verif: prop=C05 tier=quick cap=900 bound="the real ACL policy on a path without metadata" fns="AclPolicy::path_allowed,PathPolicyHop::hops_from_path,blanket impl (error => rejected)" stubs="SHA-256 fingerprints -> cheap functions"
#[kani::proof]
#[kani::unwind(5)]
#[kani::stub(sciparse::path::fingerprint::data_plane::DpPathFingerprint::from_dp_path, fp_stub)]
#[kani::stub(sciparse::path::fingerprint::control_plane::PathFingerprint::try_from_scion_path, cp_stub)]
fn c05_no_metadata_rejected() {
    use sciparse::path::policy::acl::{AclEntryOperator, AclPolicy};
    let default = if kani::any() { AclEntryOperator::Allow } else { AclEntryOperator::Deny };
    let mut st = PathStrategy::default();
    st.add_policy(AclPolicy::new(default));
    let a = IsdAsn::from_u64(0x1_0000_0000_0002);
    let d = IsdAsn::from_u64(0x1_0000_0000_0009);
    let p = ScionPath::new(a, d, ScionDpPathView::Empty, None, None);
    kani::cover!(default == AclEntryOperator::Allow, "allow-all ACL");
    assert!(!st.predicate(&p), "path without metadata passed a policy that cannot be evaluated on it");
    std::mem::forget(p);
    std::mem::forget(st);
}
