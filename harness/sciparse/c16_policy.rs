//! verif-attach: file=crates/libs/sciparse/src/scion/path/policy/acl.rs crate=sciparse mod=verif_c16
//!
//! C16 — path policy languages: ACL = first-match reference; hop predicate semantics; predicates
//! survive printing and re-parsing. (The hop-pattern matcher works on BTreeSet position sets and is
//! out of CBMC's reach - DESIGN.md C16.)
#![allow(dead_code, unused_imports, clippy::all)]
use std::fmt::Write as _;

use super::*;
use crate::identifier::{asn::Asn, isd::Isd, isd_asn::IsdAsn};
use crate::path::policy::types::{InterfacePredicate, InterfacesPredicate};

fn any_ifaces() -> InterfacesPredicate {
    let k: u8 = kani::any();
    match k % 3 {
        0 => InterfacesPredicate::Any,
        1 => InterfacesPredicate::Either(InterfacePredicate::new(kani::any())),
        _ => InterfacesPredicate::Both { ingress: InterfacePredicate::new(kani::any()), egress: InterfacePredicate::new(kani::any()) },
    }
}

fn any_pred() -> HopPredicate {
    let asn: u64 = kani::any();
    kani::assume(asn <= Asn::MAX.0);
    HopPredicate { isd: Isd(kani::any()), asn: if kani::any() { Some(Asn(asn)) } else { None }, interfaces: any_ifaces() }
}

/// hops as they come from path metadata: real ISD and AS numbers (never the wildcard 0)
fn any_hop() -> PathPolicyHop {
    let isd: u16 = kani::any();
    let asn: u64 = kani::any();
    kani::assume(isd != 0 && asn != 0 && asn <= Asn::MAX.0);
    PathPolicyHop { isd_asn: IsdAsn::new(Isd(isd), Asn(asn)), ingress: kani::any(), egress: kani::any() }
}

/// documented predicate semantics: 0 is the wildcard in the predicate; an absent AS matches all;
/// `#x` matches a hop using x on either side; `#i,e` constrains both sides (0 = any).
fn ref_pred_matches(p: &HopPredicate, h: &PathPolicyHop) -> bool {
    let isd_ok = p.isd.0 == 0 || p.isd.0 == h.isd_asn.isd().0;
    let as_ok = match p.asn {
        None => true,
        Some(a) => a.0 == 0 || a.0 == h.isd_asn.asn().0,
    };
    let if_ok = match p.interfaces {
        InterfacesPredicate::Any => true,
        InterfacesPredicate::Either(x) => {
            let x: u16 = x.into();
            x == 0 || x == h.ingress || x == h.egress
        }
        InterfacesPredicate::Both { ingress, egress } => {
            let (i, e): (u16, u16) = (ingress.into(), egress.into());
            (i == 0 || i == h.ingress) && (e == 0 || e == h.egress)
        }
    };
    isd_ok && as_ok && if_ok
}

// verif: prop=C16 tier=quick cap=600 bound="every hop predicate (ISD, optional AS, Any/Either/Both interfaces, all wildcards) x every hop with real ISD-AS" fns="HopPredicate::matches,InterfacesPredicate::matches,InterfacePredicate::matches,Isd::matches,Asn::matches,PathPolicyHop::matches" stubs="none"
#[kani::proof]
fn c16_pred_semantics() {
    let p = any_pred();
    let h = any_hop();
    kani::cover!(h.matches(&p) && !p.is_wildcard(), "non-wildcard predicate matches");
    assert!(h.matches(&p) == ref_pred_matches(&p, &h), "hop predicate differs from the documented wildcard rules");
    assert!(!p.is_wildcard() || h.matches(&p), "wildcard predicate does not match a hop");
}

/// ACL with exactly E entries (shape), all entry fields, the default and 1..H hops symbolic.
fn acl<const E: usize, const H: usize>() {
    let k: usize = kani::any();
    kani::assume(k >= 1 && k <= H);
    let default = if kani::any() { AclEntryOperator::Allow } else { AclEntryOperator::Deny };
    let mut ops = [true; E];
    let mut preds = [HopPredicate { isd: Isd(0), asn: None, interfaces: InterfacesPredicate::Any }; E];
    let mut entries = Vec::with_capacity(E);
    let mut i = 0;
    while i < E {
        ops[i] = kani::any();
        preds[i] = any_pred();
        entries.push(AclEntry::new(if ops[i] { AclEntryOperator::Allow } else { AclEntryOperator::Deny }, preds[i]));
        i += 1;
    }
    let policy = AclPolicy { entries, default };
    let mut hops = [PathPolicyHop { isd_asn: IsdAsn::new(Isd(1), Asn(1)), ingress: 0, egress: 0 }; H];
    let mut i = 0;
    while i < H {
        hops[i] = any_hop();
        i += 1;
    }
    // reference: every hop's first matching entry is an allow entry; the default decides when none matches
    let mut want = true;
    let mut h = 0;
    while h < H {
        if h < k {
            let mut verdict = default == AclEntryOperator::Allow;
            let mut e = E;
            while e > 0 {
                e -= 1;
                if ref_pred_matches(&preds[e], &hops[h]) {
                    verdict = ops[e];
                }
            }
            if !verdict {
                want = false;
            }
        }
        h += 1;
    }
    let got = policy.matches(&hops[..k]);
    kani::cover!(got && k == H, "longest hop sequence allowed");
    kani::cover!(!got && default == AclEntryOperator::Allow, "denied by an entry");
    assert!(got == want, "ACL verdict differs from first-match semantics");
    std::mem::forget(policy);
}

// verif: prop=C16 tier=quick cap=1200 bound="every ACL with exactly 2 entries (operator, ISD, optional AS, interface predicate, wildcards) and either default x every sequence of 1..3 hops" fns="AclPolicy::matches,AclEntry::matches,PathPolicyHop::matches" stubs="none"
#[kani::proof]
#[kani::unwind(6)]
fn c16_acl_e2_h3() {
    acl::<2, 3>()
}

// verif: prop=C16 tier=quick cap=1200 bound="every ACL with exactly 3 entries x every sequence of 1..2 hops" fns="AclPolicy::matches" stubs="none"
#[kani::proof]
#[kani::unwind(6)]
fn c16_acl_e3_h2() {
    acl::<3, 2>()
}

// verif: prop=C16 tier=quick cap=1200 bound="every ACL with exactly 3 entries x every sequence of 1..3 hops" fns="AclPolicy::matches" stubs="none"
#[kani::proof]
#[kani::unwind(6)]
fn c16_acl_e3_h3() {
    acl::<3, 3>()
}

// verif: prop=C16 tier=quick cap=1200 bound="every ACL with exactly 4 entries x every sequence of 1..5 hops" fns="AclPolicy::matches" stubs="none"
#[kani::proof]
#[kani::unwind(8)]
fn c16_acl_e4_h5() {
    acl::<4, 5>()
}

// verif: prop=C16 tier=quick cap=300 bound="the empty ACL x every sequence of 1..3 hops: the default decides" fns="AclPolicy::matches" stubs="none"
#[kani::proof]
#[kani::unwind(6)]
fn c16_acl_e0_h3() {
    let k: usize = kani::any();
    kani::assume(k >= 1 && k <= 3);
    let default = if kani::any() { AclEntryOperator::Allow } else { AclEntryOperator::Deny };
    let policy = AclPolicy::new(default);
    let hops = [any_hop(), any_hop(), any_hop()];
    kani::cover!(default == AclEntryOperator::Deny, "deny by default");
    assert!(policy.matches(&hops[..k]) == (default == AclEntryOperator::Allow), "empty ACL does not apply its default");
}

/// fmt sink without allocation
struct Sink {
    b: [u8; 40],
    n: usize,
}
impl std::fmt::Write for Sink {
    fn write_str(&mut self, s: &str) -> std::fmt::Result {
        let bytes = s.as_bytes();
        let mut i = 0;
        while i < bytes.len() {
            if self.n >= 40 {
                return Err(std::fmt::Error);
            }
            self.b[self.n] = bytes[i];
            self.n += 1;
            i += 1;
        }
        Ok(())
    }
}

fn pred_display_parse(p: HopPredicate) {
    let mut s = Sink { b: [0; 40], n: 0 };
    let r = write!(s, "{}", p);
    assert!(r.is_ok());
    let text = unsafe { std::str::from_utf8_unchecked(&s.b[..s.n]) };
    match HopPredicate::from_str(text) {
        Ok(q) => {
            kani::cover!(true, "predicate round-trips");
            assert!(q == p, "hop predicate changed by display -> parse");
        }
        Err(_) => {
            assert!(false, "displayed hop predicate rejected by the parser");
        }
    }
}

// Composition of the three leaf round trips (ISD: c15_isd_display_parse, AS: c15_asn_*,
// interfaces: c16_ifaces_display_parse). All three symbolic at once gave no verdict in 57 min at
// 18 GB; the two slices below (one part symbolic at a time) gave none in 25 min at 16 GB either: the
// cost is str::splitn with a string pattern (two-way searcher). tier=off: not part of any check.
// verif: prop=C16 tier=off cap=1500 mem=24 bound="hop predicates with ISD any u16, AS one of {absent, 0, 64512, ff00:0:110, ffff:ffff:ffff}, no interface part: display then parse gives the same predicate" fns="HopPredicate::fmt (Display),HopPredicate::from_str" stubs="alloc::fmt::format -> empty string (error messages only)"
#[kani::proof]
#[kani::unwind(12)]
#[kani::stub(alloc::fmt::format, fmt_stub)]
fn c16_pred_display_parse_isd_as() {
    let asn = match kani::any::<u8>() % 5 {
        0 => None,
        1 => Some(Asn(0)),
        2 => Some(Asn(64512)),
        3 => Some(Asn(0xff00_0000_0110)),
        _ => Some(Asn(Asn::MAX.0)),
    };
    pred_display_parse(HopPredicate { isd: Isd(kani::any()), asn, interfaces: InterfacesPredicate::Any });
}

// verif: prop=C16 tier=off cap=1500 mem=24 bound="hop predicates 1-ff00:0:110 with interfaces Any / Either(x) / Both(i,e), all u16 values: display then parse gives the same predicate" fns="HopPredicate::fmt (Display),HopPredicate::from_str,InterfacesPredicate::{fmt,from_str}" stubs="alloc::fmt::format -> empty string (error messages only)"
#[kani::proof]
#[kani::unwind(12)]
#[kani::stub(alloc::fmt::format, fmt_stub)]
fn c16_pred_display_parse_ifaces() {
    pred_display_parse(HopPredicate { isd: Isd(1), asn: Some(Asn(0xff00_0000_0110)), interfaces: any_ifaces() });
}

fn fmt_stub(_args: std::fmt::Arguments<'_>) -> String {
    String::new()
}

// verif: prop=C16 tier=quick cap=900 bound="every interface predicate Either(x) / Both(i,e) over all u16 values: display then parse gives the same predicate" fns="InterfacesPredicate::{fmt (Display),from_str}" stubs="alloc::fmt::format -> empty string (error messages only)"
#[kani::proof]
#[kani::unwind(12)]
#[kani::stub(alloc::fmt::format, fmt_stub)]
fn c16_ifaces_display_parse() {
    let p = if kani::any() {
        InterfacesPredicate::Either(InterfacePredicate::new(kani::any()))
    } else {
        InterfacesPredicate::Both { ingress: InterfacePredicate::new(kani::any()), egress: InterfacePredicate::new(kani::any()) }
    };
    let mut s = Sink { b: [0; 40], n: 0 };
    let r = write!(s, "{}", p);
    assert!(r.is_ok());
    let text = unsafe { std::str::from_utf8_unchecked(&s.b[..s.n]) };
    match InterfacesPredicate::from_str(text) {
        Ok(q) => {
            kani::cover!(matches!(q, InterfacesPredicate::Both { .. }), "both-interfaces predicate round-trips");
            assert!(q == p, "interface predicate changed by display -> parse");
        }
        Err(_) => {
            assert!(false, "displayed interface predicate rejected by the parser");
        }
    }
}
