//! verif-attach: file=crates/libs/sciparse/src/scion/segment/rpc.rs crate=sciparse mod=verif_c18
//!
//! C18 — conversion clause only: RPC leaf conversions are lossless and total, and accept exactly
//! the documented ranges. "Validates iff authentic" is ECDSA-P256/SHA-256 over prost encodings:
//! not decided (DESIGN.md C18).
#![allow(dead_code, unused_imports, clippy::all)]
use scion_protobuf::control_plane::v1 as pb;

use super::*;
use crate::identifier::isd_asn::IsdAsn;

fn fmt_stub(_args: std::fmt::Arguments<'_>) -> String {
    String::new()
}

fn any_shf() -> SegmentHopField {
    SegmentHopField { expiration_units: kani::any(), cons_ingress: kani::any(), cons_egress: kani::any(), mac: HopFieldMac(kani::any()) }
}

fn same_hf(a: &SegmentHopField, b: &SegmentHopField) -> bool {
    a.expiration_units == b.expiration_units && a.cons_ingress == b.cons_ingress && a.cons_egress == b.cons_egress && a.mac.0 == b.mac.0
}

// verif: prop=C18 tier=quick cap=900 mem=16 bound="every SegmentHopField / HopEntry / PeerEntry / SegmentInfo value" fns="SegmentHopField/HopEntry/PeerEntry/SegmentInfo::{into_rpc,try_from_rpc}" stubs="alloc::fmt::format -> empty string"
#[kani::proof]
#[kani::unwind(8)]
#[kani::stub(alloc::fmt::format, fmt_stub)]
fn c18_leaf_roundtrip() {
    let hf = any_shf();
    match SegmentHopField::try_from_rpc(hf.clone().into_rpc()) {
        Ok(b) => {
            assert!(same_hf(&hf, &b), "hop field changed by RPC round trip");
        }
        Err(_) => {
            assert!(false, "hop field rejected after into_rpc");
        }
    }
    let he = HopEntry { ingress_mtu: kani::any(), hop_field: any_shf() };
    match HopEntry::try_from_rpc(he.clone().into_rpc()) {
        Ok(b) => {
            assert!(b.ingress_mtu == he.ingress_mtu && same_hf(&b.hop_field, &he.hop_field), "hop entry changed by RPC round trip");
        }
        Err(_) => {
            assert!(false, "hop entry rejected after into_rpc");
        }
    }
    let pe = PeerEntry { peer: IsdAsn::from_u64(kani::any()), peer_interface: kani::any(), peer_mtu: kani::any(), hop_field: any_shf() };
    match PeerEntry::try_from_rpc(pe.clone().into_rpc()) {
        Ok(b) => {
            assert!(b.peer == pe.peer && b.peer_interface == pe.peer_interface && b.peer_mtu == pe.peer_mtu && same_hf(&b.hop_field, &pe.hop_field), "peer entry changed by RPC round trip");
        }
        Err(_) => {
            assert!(false, "peer entry rejected after into_rpc");
        }
    }
    let si = SegmentInfo::new(kani::any(), kani::any());
    match SegmentInfo::try_from_rpc(si.clone().into_rpc()) {
        Ok(b) => {
            assert!(b.timestamp == si.timestamp && b.segment_id == si.segment_id, "segment info changed by RPC round trip");
        }
        Err(_) => {
            assert!(false, "segment info rejected after into_rpc");
        }
    }
}

// verif: prop=C18 tier=quick cap=900 bound="arbitrary RPC HopField / HopEntry / PeerEntry / SegmentInformation messages: all field values incl. beyond 16 bits, missing hop field, MAC length 0..8" fns="SegmentHopField/HopEntry/PeerEntry/SegmentInfo::try_from_rpc" stubs="alloc::fmt::format -> empty string"
#[kani::proof]
#[kani::unwind(10)]
#[kani::stub(alloc::fmt::format, fmt_stub)]
fn c18_leaf_total_exact() {
    let maclen: usize = kani::any();
    kani::assume(maclen <= 8);
    // one 8-byte scalar, not eight 1-byte values: a sliced counterexample trace drops the bytes
    // beyond maclen and the concrete playback would then be misaligned
    let macbytes: [u8; 8] = kani::any::<u64>().to_be_bytes();
    let m = pb::HopField { exp_time: kani::any(), ingress: kani::any(), egress: kani::any(), mac: macbytes[..maclen].to_vec() };
    let in_range = m.exp_time <= 255 && m.ingress <= 65535 && m.egress <= 65535 && maclen == 6;
    let (e, i, g) = (m.exp_time, m.ingress, m.egress);
    match SegmentHopField::try_from_rpc(m.clone()) {
        Ok(h) => {
            kani::cover!(true, "hop field accepted");
            assert!(in_range, "out-of-range RPC hop field accepted");
            assert!(h.expiration_units as u32 == e && h.cons_ingress as u64 == i && h.cons_egress as u64 == g && h.mac.0[5] == macbytes[5], "accepted hop field differs from the message");
        }
        Err(_) => {
            kani::cover!(maclen != 6, "wrong MAC length rejected");
            assert!(!in_range, "in-range RPC hop field rejected");
        }
    }
    let has_hf: bool = kani::any();
    let he = pb::HopEntry { ingress_mtu: kani::any(), hop_field: if has_hf { Some(m.clone()) } else { None } };
    let mtu = he.ingress_mtu;
    match HopEntry::try_from_rpc(he) {
        Ok(x) => {
            assert!(has_hf && in_range && mtu <= 65535 && x.ingress_mtu as u32 == mtu, "hop entry accepted outside the documented ranges");
        }
        Err(_) => {
            assert!(!(has_hf && in_range && mtu <= 65535), "valid hop entry rejected");
        }
    }
    let pe = pb::PeerEntry { peer_isd_as: kani::any(), peer_interface: kani::any(), peer_mtu: kani::any(), hop_field: if has_hf { Some(m) } else { None } };
    let (pi, pm, pia) = (pe.peer_interface, pe.peer_mtu, pe.peer_isd_as);
    match PeerEntry::try_from_rpc(pe) {
        Ok(x) => {
            assert!(has_hf && in_range && pi <= 65535 && pm <= 65535, "peer entry accepted outside the documented ranges");
            assert!(x.peer.to_u64() == pia && x.peer_interface as u64 == pi && x.peer_mtu as u32 == pm);
        }
        Err(_) => {
            assert!(!(has_hf && in_range && pi <= 65535 && pm <= 65535), "valid peer entry rejected");
        }
    }
    let si = pb::SegmentInformation { timestamp: kani::any(), segment_id: kani::any() };
    let (ts, sid) = (si.timestamp, si.segment_id);
    match SegmentInfo::try_from_rpc(si) {
        Ok(x) => {
            assert!(ts >= 0 && ts <= u32::MAX as i64 && sid <= 65535 && x.timestamp as i64 == ts && x.segment_id as u32 == sid, "segment info accepted outside the documented ranges");
        }
        Err(_) => {
            assert!(!(ts >= 0 && ts <= u32::MAX as i64 && sid <= 65535), "valid segment info rejected");
        }
    }
}

// Whole-segment conversion, header part: the segment header travels as a prost-encoded byte field
// inside the PathSegment message. proto3 omits zero fields, so timestamp 0 / segment id 0 is the
// empty byte string (after seed C18-empty-segment-info). AS entries: none (their conversion needs
// signed prost bodies, not decided).
// Measured: no verdict in 1200 s at 6.6 GB (prost varint encode/decode through Vec<u8> with symbolic values): tier=off.
// verif: prop=C18 tier=off cap=1200 mem=16 bound="segment header with every timestamp (u32) and segment id (u16), zero AS entries: native -> prost bytes -> SignedPathSegment::try_from_rpc" fns="SignedPathSegment::try_from_rpc, SegmentInfo::{into_rpc,try_from_rpc}, prost SegmentInformation::{encode_to_vec,decode}" stubs="alloc::fmt::format -> empty string"
#[kani::proof]
#[kani::unwind(12)]
#[kani::stub(alloc::fmt::format, fmt_stub)]
fn c18_segment_header_wire() {
    let ts: u32 = kani::any();
    let id: u16 = kani::any();
    let si = SegmentInfo::new(ts, id);
    let bytes = si.into_rpc().encode_to_vec();
    kani::cover!(bytes.is_empty(), "header encoded as the empty byte string");
    kani::cover!(bytes.len() > 6, "header with two multi-byte varints");
    let msg = pb::PathSegment { segment_info: bytes, as_entries: Vec::new() };
    match SignedPathSegment::try_from_rpc(msg) {
        Ok(s) => {
            assert!(s.info.timestamp == ts && s.info.segment_id == id, "segment header changed by the RPC round trip");
            assert!(s.as_entries.is_empty(), "AS entries invented by the RPC conversion");
            std::mem::forget(s);
        }
        Err(_) => {
            assert!(false, "segment header rejected after into_rpc");
        }
    }
}

// The one header the symbolic harness above was written for, concretely: timestamp 0 / segment id 0
// is the empty byte string on the wire and must convert back (seed C18-empty-segment-info).
// verif: prop=C18 tier=thorough cap=600 mem=10 bound="segment header timestamp 0 / segment id 0 (empty prost encoding), zero AS entries" fns="SignedPathSegment::try_from_rpc, SegmentInfo::{into_rpc,try_from_rpc}, prost SegmentInformation::{encode_to_vec,decode}" stubs="alloc::fmt::format -> empty string"
#[kani::proof]
#[kani::unwind(12)]
#[kani::stub(alloc::fmt::format, fmt_stub)]
fn c18_zero_hdr_wire() {
    let si = SegmentInfo::new(0, 0);
    let bytes = si.into_rpc().encode_to_vec();
    assert!(bytes.is_empty(), "proto3 encodes the all-zero header as no bytes");
    let msg = pb::PathSegment { segment_info: bytes, as_entries: Vec::new() };
    match SignedPathSegment::try_from_rpc(msg) {
        Ok(s) => {
            assert!(s.info.timestamp == 0 && s.info.segment_id == 0, "segment header changed by the RPC round trip");
            assert!(s.as_entries.is_empty(), "AS entries invented by the RPC conversion");
            std::mem::forget(s);
        }
        Err(_) => {
            assert!(false, "all-zero segment header rejected after into_rpc");
        }
    }
}
