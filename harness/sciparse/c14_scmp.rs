//! verif-attach: file=crates/libs/sciparse/src/proto/payload/scmp/model.rs crate=sciparse mod=verif_c14
//!
//! C14 — SCMP: every error message fits 1232 bytes for every header size and every offending
//! packet length, quotes a prefix of the offending packet, carries a checksum that verifies over
//! the SCION pseudo-header; echo request/reply encodings carry identifier, sequence number, data.
#![allow(dead_code, unused_imports, clippy::all)]
use std::net::Ipv4Addr;

use super::*;
use crate::address::addr::ScionAddr;
use crate::core::encode::WireEncode;
use crate::core::layout::Layout;
use crate::core::view::View;
use crate::dataplane_path::model::DpPath;
use crate::identifier::isd_asn::IsdAsn;
use crate::packet::model::ScionScmpPacket;
use crate::packet::view::ScionScmpPacketView;
use crate::payload::scmp::layout::*;
use crate::payload::scmp::view::ScmpMessageView;

// verif: prop=C14 tier=quick cap=300 bound="all five SCMP error kinds x every offending-packet length (any usize) x every header size 36..1020 (multiples of 4)" fns="Scmp{DestinationUnreachable,PacketTooBig,ParameterProblem,ExternalInterfaceDown,InternalConnectivityDown}Layout::from_offending_packet_length,size_bytes" stubs="none"
#[kani::proof]
fn c14_size_budget() {
    let len: usize = kani::any();
    let h: usize = kani::any();
    kani::assume(h >= 36 && h <= 1020 && h % 4 == 0);
    let du = ScmpDestinationUnreachableLayout::from_offending_packet_length(len, h).size_bytes();
    let tb = ScmpPacketTooBigLayout::from_offending_packet_length(len, h).size_bytes();
    let pp = ScmpParameterProblemLayout::from_offending_packet_length(len, h).size_bytes();
    let ed = ScmpExternalInterfaceDownLayout::from_offending_packet_length(len, h).size_bytes();
    let id = ScmpInternalConnectivityDownLayout::from_offending_packet_length(len, h).size_bytes();
    assert!(h + du <= 1232 && h + tb <= 1232 && h + pp <= 1232 && h + ed <= 1232 && h + id <= 1232, "SCMP error longer than 1232 bytes");
    // as much as possible is quoted: everything, or the budget is used up
    assert!(du >= 8 && tb >= 8 && pp >= 8 && ed >= 20 && id >= 28, "SCMP error shorter than its fixed part");
    let all = |sz: usize, fixed: usize| sz - fixed == len || h + sz == 1232;
    assert!(all(du, 8) && all(tb, 8) && all(pp, 8) && all(ed, 20) && all(id, 28), "offending packet quoted neither fully nor up to the budget");
    kani::cover!(h + pp == 1232 && len > 2000, "truncated quote");
    kani::cover!(pp - 8 == len, "full quote");
}

fn rfc1071(data: &[u8], len: usize) -> u32 {
    let mut sum: u32 = 0;
    let mut i = 0;
    while i < len {
        let hi = data[i] as u32;
        let lo = if i + 1 < len { data[i + 1] as u32 } else { 0 };
        sum += (hi << 8) | lo;
        i += 2;
    }
    sum
}
fn fold(mut s: u32) -> u16 {
    s = (s >> 16) + (s & 0xffff);
    s = (s >> 16) + (s & 0xffff);
    s as u16
}

/// Concrete addresses: the pseudo-header part of the checksum with symbolic addresses is decided by
/// c03_udp_checksum_*; here the message part is symbolic (two summation orders over ~50 symbolic
/// bytes cost CBMC > 15 min, over the message alone a few minutes).
fn addrs() -> (ScionAddr, ScionAddr) {
    let src = ScionAddr::new(IsdAsn::from_u64(0x0001_ff00_0000_0110), Ipv4Addr::new(10, 1, 2, 3).into());
    let dst = ScionAddr::new(IsdAsn::from_u64(0x0002_ff00_0000_0220), Ipv4Addr::new(192, 0, 2, 77).into());
    (src, dst)
}

/// Encode one SCMP packet (IPv4 addresses, empty path => 36-byte header) and check size, SCMP
/// type, quoted prefix at `quote_off` and the checksum over the pseudo-header.
fn check_encoded(msg: ScmpMessage, ty: u8, fixed: usize, off: &[u8], qlen: usize) {
    let (src, dst) = addrs();
    let j: usize = kani::any();
    let pkt = ScionScmpPacket::new(src, dst, DpPath::Empty, msg);
    let Ok(bytes) = pkt.try_encode_to_vec() else {
        assert!(false, "SCMP packet refused by the encoder");
        return;
    };
    kani::cover!(true, "SCMP packet encoded");
    let n = bytes.len();
    assert!(n == 36 + fixed + qlen && n <= 1232, "SCMP packet size wrong");
    assert!(n == pkt.required_size());
    assert!(u16::from_be_bytes([bytes[6], bytes[7]]) as usize == fixed + qlen, "payload length field wrong");
    assert!(bytes[4] == 202, "next header is not SCMP");
    assert!(bytes[36] == ty, "SCMP type wrong");
    if j < qlen {
        assert!(bytes[36 + fixed + j] == off[j], "quoted bytes are not a prefix of the offending packet");
    }
    let mut sum: u32 = 0;
    sum += rfc1071(&bytes[12..], 24);
    sum += (fixed + qlen) as u32;
    sum += 202;
    sum += rfc1071(&bytes[36..], fixed + qlen);
    assert!(fold(sum) == 0xffff, "SCMP checksum does not verify over the SCION pseudo-header");
    std::mem::forget(pkt);
    std::mem::forget(bytes);
}

const Q: usize = 4; // quoted bytes: the checksum equivalence (two summation orders) is what costs SAT time

// verif: prop=C14 tier=quick cap=900 bound="parameter problem: any code/pointer, 4 offending bytes, fixed IPv4 addresses, empty path; all message values" fns="ScmpParameterProblem::{required_size,encode_unchecked},ScionPacket::<ScmpMessage>::try_encode_to_vec,ChecksumDigest::with_pseudoheader" stubs="none"
#[kani::proof]
#[kani::unwind(40)]
fn c14_encode_param_problem() {
    let off: [u8; Q] = kani::any();
    let m = ScmpParameterProblem::new(ScmpParameterProblemCode::from(kani::any::<u8>()), kani::any(), off.to_vec());
    check_encoded(m.into(), 4, 8, &off, Q);
}

// verif: prop=C14 tier=thorough cap=2400 bound="external interface down: any ISD-AS/interface, 4 offending bytes" fns="ScmpExternalInterfaceDown::{required_size,encode_unchecked}" stubs="none"
#[kani::proof]
#[kani::unwind(40)]
fn c14_encode_ext_if_down() {
    let off: [u8; Q] = kani::any();
    let m = ScmpExternalInterfaceDown::new(IsdAsn::from_u64(kani::any()), kani::any(), off.to_vec());
    check_encoded(m.into(), 5, 20, &off, Q);
}

// verif: prop=C14 tier=quick cap=900 rot=enc2 bound="destination unreachable: any code, 4 offending bytes" fns="ScmpDestinationUnreachable::{required_size,encode_unchecked}" stubs="none"
#[kani::proof]
#[kani::unwind(40)]
fn c14_encode_dest_unreachable() {
    let off: [u8; Q] = kani::any();
    let m = ScmpDestinationUnreachable::new(ScmpDestinationUnreachableCode::from(kani::any::<u8>()), off.to_vec());
    check_encoded(m.into(), 1, 8, &off, Q);
}

// verif: prop=C14 tier=quick cap=900 rot=enc2 bound="packet too big: any MTU, 4 offending bytes" fns="ScmpPacketTooBig::{required_size,encode_unchecked}" stubs="none"
#[kani::proof]
#[kani::unwind(40)]
fn c14_encode_too_big() {
    let off: [u8; Q] = kani::any();
    let m = ScmpPacketTooBig::new(kani::any(), off.to_vec());
    check_encoded(m.into(), 2, 8, &off, Q);
}

// verif: prop=C14 tier=thorough cap=2000 bound="internal connectivity down: any ISD-AS/interfaces, 4 offending bytes" fns="ScmpInternalConnectivityDown::{required_size,encode_unchecked}" stubs="none"
#[kani::proof]
#[kani::unwind(40)]
fn c14_encode_int_conn_down() {
    let off: [u8; Q] = kani::any();
    let m = ScmpInternalConnectivityDown::new(IsdAsn::from_u64(kani::any()), kani::any(), kani::any(), off.to_vec());
    check_encoded(m.into(), 6, 28, &off, Q);
}

/// An offending packet of 1300 bytes (zero except one symbolic byte at a symbolic position, which
/// may lie in the quoted prefix or in the dropped tail): every error kind truncates the quote to
/// the 1232-byte budget, quotes the prefix, and the checksum verifies over what is sent.
fn encode_truncated(kind: u8) {
    const BIG: usize = 1300;
    let mut off = [0u8; BIG];
    let p: usize = kani::any();
    kani::assume(p < BIG);
    off[p] = kani::any();
    let ia = IsdAsn::from_u64(0x0001_ff00_0000_0110);
    let (msg, ty, fixed): (ScmpMessage, u8, usize) = match kind {
        0 => (ScmpDestinationUnreachable::new(ScmpDestinationUnreachableCode::from(kani::any::<u8>()), off.to_vec()).into(), 1, 8),
        1 => (ScmpPacketTooBig::new(kani::any(), off.to_vec()).into(), 2, 8),
        2 => (ScmpParameterProblem::new(ScmpParameterProblemCode::InvalidCommonHeader, kani::any(), off.to_vec()).into(), 4, 8),
        3 => (ScmpExternalInterfaceDown::new(ia, kani::any(), off.to_vec()).into(), 5, 20),
        _ => (ScmpInternalConnectivityDown::new(ia, kani::any(), kani::any(), off.to_vec()).into(), 6, 28),
    };
    kani::cover!(p >= 1232 - 36 - fixed, "symbolic byte in the dropped tail");
    check_encoded(msg, ty, fixed, &off, 1232 - 36 - fixed);
}

// verif: prop=C14 tier=thorough cap=3000 mem=24 bound="destination unreachable quoting a 1300-byte offending packet (one symbolic byte anywhere): truncated to the 1232-byte budget, quoted prefix, checksum" fns="ScmpDestinationUnreachable::encode_unchecked with truncation" stubs="none"
#[kani::proof]
#[kani::unwind(640)]
fn c14_truncated_dest_unreachable() {
    encode_truncated(0)
}

// verif: prop=C14 tier=thorough cap=3000 mem=24 bound="packet too big quoting a 1300-byte offending packet" fns="ScmpPacketTooBig::encode_unchecked with truncation" stubs="none"
#[kani::proof]
#[kani::unwind(640)]
fn c14_truncated_too_big() {
    encode_truncated(1)
}

// verif: prop=C14 tier=thorough cap=3000 mem=24 bound="parameter problem quoting a 1300-byte offending packet" fns="ScmpParameterProblem::encode_unchecked with truncation" stubs="none"
#[kani::proof]
#[kani::unwind(640)]
fn c14_truncated_param_problem() {
    encode_truncated(2)
}

// verif: prop=C14 tier=thorough cap=3000 mem=24 bound="external interface down quoting a 1300-byte offending packet" fns="ScmpExternalInterfaceDown::encode_unchecked with truncation" stubs="none"
#[kani::proof]
#[kani::unwind(640)]
fn c14_truncated_ext_if_down() {
    encode_truncated(3)
}

// verif: prop=C14 tier=thorough cap=3000 mem=24 bound="internal connectivity down quoting a 1300-byte offending packet" fns="ScmpInternalConnectivityDown::encode_unchecked with truncation" stubs="none"
#[kani::proof]
#[kani::unwind(640)]
fn c14_truncated_int_conn_down() {
    encode_truncated(4)
}

/// Echo request / reply: identifier, sequence number and data are what the encoder writes and
/// what the crate's SCMP view reads back.
fn echo(reply: bool) {
    let id: u16 = kani::any();
    let seq: u16 = kani::any();
    const D: usize = 3;
    let data: [u8; D] = kani::any();
    let j: usize = kani::any();
    kani::assume(j < D);
    let (src, dst) = addrs();
    let msg: ScmpMessage = if reply { ScmpEchoReply::new(id, seq, data.to_vec()).into() } else { ScmpEchoRequest::new(id, seq, data.to_vec()).into() };
    let pkt = ScionScmpPacket::new(src, dst, DpPath::Empty, msg);
    let Ok(bytes) = pkt.try_encode_to_vec() else {
        assert!(false, "echo message refused by the encoder");
        return;
    };
    assert!(bytes.len() == 36 + 8 + D);
    assert!(bytes[36] == if reply { 129 } else { 128 } && bytes[37] == 0, "echo type/code wrong");
    assert!(u16::from_be_bytes([bytes[40], bytes[41]]) == id && u16::from_be_bytes([bytes[42], bytes[43]]) == seq, "identifier / sequence number not at their wire position");
    assert!(bytes[44 + j] == data[j], "echo data differs");
    let Ok((v, rest)) = ScionScmpPacketView::try_from_slice(&bytes) else {
        assert!(false, "echo packet rejected by the decoder");
        return;
    };
    assert!(rest.is_empty());
    match v.scmp().message() {
        ScmpMessageView::EchoRequest(m) => {
            assert!(!reply && m.identifier() == id && m.sequence_number() == seq && m.data()[j] == data[j] && m.data().len() == D);
        }
        ScmpMessageView::EchoReply(m) => {
            assert!(reply && m.identifier() == id && m.sequence_number() == seq && m.data()[j] == data[j] && m.data().len() == D);
        }
        _ => {
            assert!(false, "echo message decoded as another SCMP type");
        }
    }
    let mut sum: u32 = 0;
    sum += rfc1071(&bytes[12..], 24);
    sum += (8 + D) as u32;
    sum += 202;
    sum += rfc1071(&bytes[36..], 8 + D);
    assert!(fold(sum) == 0xffff, "echo checksum does not verify");
    std::mem::forget(pkt);
    std::mem::forget(bytes);
}

// verif: prop=C14 tier=quick cap=900 bound="echo request: any identifier/sequence number, 3 data bytes, IPv4, empty path" fns="ScmpEchoRequest::encode_unchecked,ScmpPayloadView::message,ScmpEchoRequestMessageView" stubs="none"
#[kani::proof]
#[kani::unwind(40)]
fn c14_echo_request_codec() {
    echo(false)
}

// verif: prop=C14 tier=thorough cap=2000 bound="echo reply: any identifier/sequence number, 3 data bytes" fns="ScmpEchoReply::encode_unchecked,ScmpEchoReplyMessageView" stubs="none"
#[kani::proof]
#[kani::unwind(40)]
fn c14_echo_reply_codec() {
    echo(true)
}
