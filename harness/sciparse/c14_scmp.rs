//! verif-attach: file=crates/libs/sciparse/src/proto/payload/scmp/model.rs crate=sciparse mod=verif_c14
//!
//! C14 — SCMP: every error message fits 1232 bytes for every header size and every offending
//! packet length, quotes a prefix of the offending packet, carries a checksum that verifies over
//! the SCION pseudo-header; echo request/reply encodings carry identifier, sequence number, data.
#![allow(dead_code, unused_imports, clippy::all)]
use std::net::Ipv4Addr;

use super::*;
use crate::address::addr::ScionAddr;
use crate::core::encode::WireEncode;
use crate::core::layout::Layout;
use crate::core::view::View;
use crate::dataplane_path::model::DpPath;
use crate::identifier::isd_asn::IsdAsn;
use crate::packet::model::ScionScmpPacket;
use crate::packet::view::ScionScmpPacketView;
use crate::payload::scmp::layout::*;
use crate::payload::scmp::view::ScmpMessageView;

// verif: prop=C14 tier=quick cap=300 bound="all five SCMP error kinds x every offending-packet length (any usize) x every header size 36..1020 (multiples of 4)" fns="Scmp{DestinationUnreachable,PacketTooBig,ParameterProblem,ExternalInterfaceDown,InternalConnectivityDown}Layout::from_offending_packet_length,size_bytes" stubs="none"
#[kani::proof]
fn c14_size_budget() {
    let len: usize = kani::any();
    let h: usize = kani::any();
    kani::assume(h >= 36 && h <= 1020 && h % 4 == 0);
    let du = ScmpDestinationUnreachableLayout::from_offending_packet_length(len, h).size_bytes();
    let tb = ScmpPacketTooBigLayout::from_offending_packet_length(len, h).size_bytes();
    let pp = ScmpParameterProblemLayout::from_offending_packet_length(len, h).size_bytes();
    let ed = ScmpExternalInterfaceDownLayout::from_offending_packet_length(len, h).size_bytes();
    let id = ScmpInternalConnectivityDownLayout::from_offending_packet_length(len, h).size_bytes();
    assert!(h + du <= 1232 && h + tb <= 1232 && h + pp <= 1232 && h + ed <= 1232 && h + id <= 1232, "SCMP error longer than 1232 bytes");
    // as much as possible is quoted: everything, or the budget is used up
    assert!(du >= 8 && tb >= 8 && pp >= 8 && ed >= 20 && id >= 28, "SCMP error shorter than its fixed part");
    let all = |sz: usize, fixed: usize| sz - fixed == len || h + sz == 1232;
    assert!(all(du, 8) && all(tb, 8) && all(pp, 8) && all(ed, 20) && all(id, 28), "offending packet quoted neither fully nor up to the budget");
    kani::cover!(h + pp == 1232 && len > 2000, "truncated quote");
    kani::cover!(pp - 8 == len, "full quote");
}

fn rfc1071(data: &[u8], len: usize) -> u32 {
    let mut sum: u32 = 0;
    let mut i = 0;
    while i < len {
        let hi = data[i] as u32;
        let lo = if i + 1 < len { data[i + 1] as u32 } else { 0 };
        sum += (hi << 8) | lo;
        i += 2;
    }
    sum
}
fn fold(mut s: u32) -> u16 {
    s = (s >> 16) + (s & 0xffff);
    s = (s >> 16) + (s & 0xffff);
    s as u16
}

/// Concrete addresses: the pseudo-header part of the checksum with symbolic addresses is decided by
/// c03_udp_checksum_*; here the message part is symbolic (two summation orders over ~50 symbolic
/// bytes cost CBMC > 15 min, over the message alone a few minutes).
fn addrs() -> (ScionAddr, ScionAddr) {
    let src = ScionAddr::new(IsdAsn::from_u64(0x0001_ff00_0000_0110), Ipv4Addr::new(10, 1, 2, 3).into());
    let dst = ScionAddr::new(IsdAsn::from_u64(0x0002_ff00_0000_0220), Ipv4Addr::new(192, 0, 2, 77).into());
    (src, dst)
}

/// Encode one SCMP packet (IPv4 addresses; empty path => 36-byte header, or an unsupported-type
/// path of `path_bytes` zero bytes to make the header large) and check size, SCMP type, quoted
/// prefix and the checksum over the pseudo-header.
fn check_encoded_h(msg: ScmpMessage, ty: u8, fixed: usize, off: &[u8], qlen: usize, path_bytes: usize) {
    let (src, dst) = addrs();
    let j: usize = kani::any();
    let path = if path_bytes == 0 {
        DpPath::Empty
    } else {
        DpPath::Unsupported { path_type: crate::dataplane_path::types::PathType::Other(200), data: vec![0u8; path_bytes] }
    };
    let hdr = 36 + path_bytes;
    let pkt = ScionScmpPacket::new(src, dst, path, msg);
    let Ok(bytes) = pkt.try_encode_to_vec() else {
        assert!(false, "SCMP packet refused by the encoder");
        return;
    };
    kani::cover!(true, "SCMP packet encoded");
    let n = bytes.len();
    assert!(n == hdr + fixed + qlen && n <= 1232, "SCMP packet size wrong");
    assert!(n == pkt.required_size());
    assert!(u16::from_be_bytes([bytes[6], bytes[7]]) as usize == fixed + qlen, "payload length field wrong");
    assert!(bytes[4] == 202, "next header is not SCMP");
    assert!(bytes[hdr] == ty, "SCMP type wrong");
    if j < qlen {
        assert!(bytes[hdr + fixed + j] == off[j], "quoted bytes are not a prefix of the offending packet");
    }
    let mut sum: u32 = 0;
    sum += rfc1071(&bytes[12..], 24);
    sum += (fixed + qlen) as u32;
    sum += 202;
    sum += rfc1071(&bytes[hdr..], fixed + qlen);
    assert!(fold(sum) == 0xffff, "SCMP checksum does not verify over the SCION pseudo-header");
    std::mem::forget(pkt);
    std::mem::forget(bytes);
}

fn check_encoded(msg: ScmpMessage, ty: u8, fixed: usize, off: &[u8], qlen: usize) {
    check_encoded_h(msg, ty, fixed, off, qlen, 0)
}

const Q: usize = 4; // quoted bytes: the checksum equivalence (two summation orders) is what costs SAT time

// verif: prop=C14 tier=quick cap=900 bound="parameter problem: any code/pointer, 4 offending bytes, fixed IPv4 addresses, empty path; all message values" fns="ScmpParameterProblem::{required_size,encode_unchecked},ScionPacket::<ScmpMessage>::try_encode_to_vec,ChecksumDigest::with_pseudoheader" stubs="none"
#[kani::proof]
#[kani::unwind(40)]
fn c14_encode_param_problem() {
    let off: [u8; Q] = kani::any();
    let m = ScmpParameterProblem::new(ScmpParameterProblemCode::from(kani::any::<u8>()), kani::any(), off.to_vec());
    check_encoded(m.into(), 4, 8, &off, Q);
}

// verif: prop=C14 tier=thorough cap=2400 bound="external interface down: any ISD-AS/interface, 4 offending bytes" fns="ScmpExternalInterfaceDown::{required_size,encode_unchecked}" stubs="none"
#[kani::proof]
#[kani::unwind(40)]
fn c14_encode_ext_if_down() {
    let off: [u8; Q] = kani::any();
    let m = ScmpExternalInterfaceDown::new(IsdAsn::from_u64(kani::any()), kani::any(), off.to_vec());
    check_encoded(m.into(), 5, 20, &off, Q);
}

// verif: prop=C14 tier=quick cap=900 rot=enc2 bound="destination unreachable: any code, 4 offending bytes" fns="ScmpDestinationUnreachable::{required_size,encode_unchecked}" stubs="none"
#[kani::proof]
#[kani::unwind(40)]
fn c14_encode_dest_unreachable() {
    let off: [u8; Q] = kani::any();
    let m = ScmpDestinationUnreachable::new(ScmpDestinationUnreachableCode::from(kani::any::<u8>()), off.to_vec());
    check_encoded(m.into(), 1, 8, &off, Q);
}

// verif: prop=C14 tier=quick cap=900 rot=enc2 bound="packet too big: any MTU, 4 offending bytes" fns="ScmpPacketTooBig::{required_size,encode_unchecked}" stubs="none"
#[kani::proof]
#[kani::unwind(40)]
fn c14_encode_too_big() {
    let off: [u8; Q] = kani::any();
    let m = ScmpPacketTooBig::new(kani::any(), off.to_vec());
    check_encoded(m.into(), 2, 8, &off, Q);
}

// verif: prop=C14 tier=thorough cap=2000 bound="internal connectivity down: any ISD-AS/interfaces, 4 offending bytes" fns="ScmpInternalConnectivityDown::{required_size,encode_unchecked}" stubs="none"
#[kani::proof]
#[kani::unwind(40)]
fn c14_encode_int_conn_down() {
    let off: [u8; Q] = kani::any();
    let m = ScmpInternalConnectivityDown::new(IsdAsn::from_u64(kani::any()), kani::any(), kani::any(), off.to_vec());
    check_encoded(m.into(), 6, 28, &off, Q);
}

/// Truncation, at the message encoder (`PayloadEncode::try_encode`, the function every packet
/// encoder calls for the payload) with a 1020-byte header announced: only 1232 - 1020 - fixed
/// bytes can be quoted; the offending packet has 220 bytes (zero except one symbolic byte at the
/// first, a last-quoted, the first-dropped or the last position). Every error kind quotes exactly
/// the budget, a prefix, and the checksum verifies over what is sent.
fn encode_truncated(kind: u8) {
    const BIG: usize = 220;
    const HDR: usize = 1020;
    let mut off = [0u8; BIG];
    let p: usize = match kani::any::<u8>() % 6 {
        0 => 0,
        1 => 1232 - HDR - 28 - 1,
        2 => 1232 - HDR - 20 - 1,
        3 => 1232 - HDR - 8 - 1,
        4 => 1232 - HDR - 8,
        _ => BIG - 1,
    };
    off[p] = kani::any();
    let ia = IsdAsn::from_u64(0x0001_ff00_0000_0110);
    let (msg, ty, fixed): (ScmpMessage, u8, usize) = match kind {
        0 => (ScmpDestinationUnreachable::new(ScmpDestinationUnreachableCode::from(kani::any::<u8>()), off.to_vec()).into(), 1, 8),
        1 => (ScmpPacketTooBig::new(kani::any(), off.to_vec()).into(), 2, 8),
        2 => (ScmpParameterProblem::new(ScmpParameterProblemCode::InvalidCommonHeader, kani::any(), off.to_vec()).into(), 4, 8),
        3 => (ScmpExternalInterfaceDown::new(ia, kani::any(), off.to_vec()).into(), 5, 20),
        _ => (ScmpInternalConnectivityDown::new(ia, kani::any(), kani::any(), off.to_vec()).into(), 6, 28),
    };
    let budget = 1232 - HDR - fixed;
    kani::cover!(p >= budget, "symbolic byte in the dropped tail");
    let (src, dst) = addrs();
    let ah = crate::header::model::AddressHeader::new(src, dst);
    let mut pseudo = [0u8; 24];
    assert!(ah.try_encode(&mut pseudo[..]) == Ok(24));
    // the output buffer is re-used by callers (the SNAP gateway's pool): arbitrary prior contents
    let mut buf: [u8; 256] = kani::any();
    let j: usize = kani::any();
    let Ok(n) = msg.try_encode(&mut buf[..], &ah, HDR) else {
        assert!(false, "SCMP message refused by the encoder");
        return;
    };
    assert!(n == fixed + budget && HDR + n == 1232, "truncated SCMP error does not use exactly the budget");
    assert!(n == msg.required_size(HDR));
    assert!(buf[0] == ty, "SCMP type wrong");
    if j < budget {
        assert!(buf[fixed + j] == off[j], "quoted bytes are not a prefix of the offending packet");
    }
    let mut sum: u32 = rfc1071(&pseudo, 24);
    sum += n as u32;
    sum += 202;
    sum += rfc1071(&buf, n);
    assert!(fold(sum) == 0xffff, "SCMP checksum does not verify over the SCION pseudo-header");
    std::mem::forget(msg);
}


// verif: prop=C14 tier=quick cap=1500 rot=trunc bound="destination unreachable encoded for a 1020-byte header, quoting a 220-byte offending packet (one symbolic byte at the first, last-quoted, first-dropped or last position): truncated to the 1232-byte budget, quoted prefix, checksum" fns="ScmpDestinationUnreachable::encode_unchecked with truncation" stubs="none"
#[kani::proof]
#[kani::unwind(130)]
fn c14_truncated_dest_unreachable() {
    encode_truncated(0)
}

// verif: prop=C14 tier=quick cap=1500 rot=trunc bound="packet too big encoded for a 1020-byte header, quoting a 220-byte offending packet" fns="ScmpPacketTooBig::encode_unchecked with truncation" stubs="none"
#[kani::proof]
#[kani::unwind(130)]
fn c14_truncated_too_big() {
    encode_truncated(1)
}

// verif: prop=C14 tier=quick cap=1500 bound="parameter problem encoded for a 1020-byte header, quoting a 220-byte offending packet" fns="ScmpParameterProblem::encode_unchecked with truncation" stubs="none"
#[kani::proof]
#[kani::unwind(130)]
fn c14_truncated_param_problem() {
    encode_truncated(2)
}

// verif: prop=C14 tier=quick cap=1500 bound="external interface down encoded for a 1020-byte header, quoting a 220-byte offending packet" fns="ScmpExternalInterfaceDown::encode_unchecked with truncation" stubs="none"
#[kani::proof]
#[kani::unwind(130)]
fn c14_truncated_ext_if_down() {
    encode_truncated(3)
}

// verif: prop=C14 tier=quick cap=1500 bound="internal connectivity down encoded for a 1020-byte header, quoting a 220-byte offending packet" fns="ScmpInternalConnectivityDown::encode_unchecked with truncation" stubs="none"
#[kani::proof]
#[kani::unwind(130)]
fn c14_truncated_int_conn_down() {
    encode_truncated(4)
}

/// Echo request / reply: identifier, sequence number and data are what the encoder writes and
/// what the crate's SCMP view reads back.
fn echo(reply: bool) {
    let id: u16 = kani::any();
    let seq: u16 = kani::any();
    const D: usize = 3;
    let data: [u8; D] = kani::any();
    let j: usize = kani::any();
    kani::assume(j < D);
    let (src, dst) = addrs();
    let msg: ScmpMessage = if reply { ScmpEchoReply::new(id, seq, data.to_vec()).into() } else { ScmpEchoRequest::new(id, seq, data.to_vec()).into() };
    let pkt = ScionScmpPacket::new(src, dst, DpPath::Empty, msg);
    let Ok(bytes) = pkt.try_encode_to_vec() else {
        assert!(false, "echo message refused by the encoder");
        return;
    };
    assert!(bytes.len() == 36 + 8 + D);
    assert!(bytes[36] == if reply { 129 } else { 128 } && bytes[37] == 0, "echo type/code wrong");
    assert!(u16::from_be_bytes([bytes[40], bytes[41]]) == id && u16::from_be_bytes([bytes[42], bytes[43]]) == seq, "identifier / sequence number not at their wire position");
    assert!(bytes[44 + j] == data[j], "echo data differs");
    let Ok((v, rest)) = ScionScmpPacketView::try_from_slice(&bytes) else {
        assert!(false, "echo packet rejected by the decoder");
        return;
    };
    assert!(rest.is_empty());
    match v.scmp().message() {
        ScmpMessageView::EchoRequest(m) => {
            assert!(!reply && m.identifier() == id && m.sequence_number() == seq && m.data()[j] == data[j] && m.data().len() == D);
        }
        ScmpMessageView::EchoReply(m) => {
            assert!(reply && m.identifier() == id && m.sequence_number() == seq && m.data()[j] == data[j] && m.data().len() == D);
        }
        _ => {
            assert!(false, "echo message decoded as another SCMP type");
        }
    }
    let mut sum: u32 = 0;
    sum += rfc1071(&bytes[12..], 24);
    sum += (8 + D) as u32;
    sum += 202;
    sum += rfc1071(&bytes[36..], 8 + D);
    assert!(fold(sum) == 0xffff, "echo checksum does not verify");
    std::mem::forget(pkt);
    std::mem::forget(bytes);
}

// verif: prop=C14 tier=quick cap=900 bound="echo request: any identifier/sequence number, 3 data bytes, IPv4, empty path" fns="ScmpEchoRequest::encode_unchecked,ScmpPayloadView::message,ScmpEchoRequestMessageView" stubs="none"
#[kani::proof]
#[kani::unwind(40)]
fn c14_echo_request_codec() {
    echo(false)
}

// verif: prop=C14 tier=thorough cap=2000 bound="echo reply: any identifier/sequence number, 3 data bytes" fns="ScmpEchoReply::encode_unchecked,ScmpEchoReplyMessageView" stubs="none"
#[kani::proof]
#[kani::unwind(40)]
fn c14_echo_reply_codec() {
    echo(true)
}
