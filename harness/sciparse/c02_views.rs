//! verif-attach: file=crates/libs/sciparse/src/core/view.rs crate=sciparse mod=verif_c02 features=fuzz
//!
//! C02 — parsing untrusted bytes is total and memory-safe.
//!
//! Input = every byte string up to N bytes (a prefix `&buf[..len]` of a symbolic array with a
//! symbolic length). All view code reaches its bytes through `slice::get_unchecked*` on the view's
//! own slice and `debug_assert!`s, whose preconditions Kani checks against the *slice* length, so
//! a read or write one byte past what the view reported as its own is a failed check even though
//! it stays inside the array. Two families:
//!  * the repository's own exhaustive exercisers (`util::fuzz::view_function_checks`, the list the
//!    maintainers keep of every accessor and mutator) on all inputs up to a small N, loops unwound;
//!  * loop-free harnesses with a symbolic field index on all inputs up to 1100 bytes (the whole
//!    header space of 1020 bytes plus truncation points).
#![allow(dead_code, unused_imports, clippy::all)]
use super::*;
use crate::dataplane_path::onehop::view::OneHopPathView;
use crate::dataplane_path::standard::view::StandardPathView;
use crate::dataplane_path::view::{ScionDpPathViewRef, ScionDpPathViewRefMut};
use crate::header::view::ScionHeaderView;
use crate::packet::view::{ScionRawPacketView, ScionScmpPacketView, ScionUdpPacketView};
use crate::payload::scmp::view::ScmpPayloadView;
use crate::payload::udp::view::UdpDatagramView;
use crate::util::fuzz::view_function_checks as vfc;

/// one-hop `set_second_hop` computes an AES-CMAC; its value is irrelevant to memory safety
fn mac_stub(_b: u16, _t: u32, _e: u8, _i: u16, _g: u16, _k: &crate::dataplane_path::standard::mac::ForwardingKey) -> [u8; 6] {
    kani::any()
}

fn within(outer: &[u8], inner: &[u8]) -> bool {
    let o = outer.as_ptr() as usize;
    let i = inner.as_ptr() as usize;
    inner.is_empty() || (i >= o && i + inner.len() <= o + outer.len())
}

/// constructor contract shared by all views: consumed + rest = input, view is the input prefix
macro_rules! ctor_contract {
    ($ty:ty, $buf:expr, $len:expr) => {{
        let total = $len;
        let base = $buf.as_ptr() as usize;
        match <$ty>::try_from_mut_slice(&mut $buf[..$len]) {
            Ok((v, rest)) => {
                assert!(v.as_slice().len() + rest.len() == total, "view + rest != input");
                assert!(v.as_slice().as_ptr() as usize == base, "view does not start at the input");
                Some(v)
            }
            Err(_) => None,
        }
    }};
}

// ---------------------------------------------------------------- repository exercisers, small N

fn exerciser_header<const N: usize>() {
    let len: usize = kani::any();
    kani::assume(len <= N);
    let mut buf: [u8; N] = kani::any();
    if let Some(v) = ctor_contract!(ScionHeaderView, buf, len) {
        kani::cover!(matches!(v.path(), ScionDpPathViewRef::Standard(_)), "standard path header accepted");
        kani::cover!(matches!(v.path(), ScionDpPathViewRef::OneHop(_)), "one-hop path header accepted");
        vfc::header::exec_every_view_function(v);
    }
}

// verif: prop=C02 tier=quick cap=1200 bound="all byte strings <= 100 B as SCION header (common+address header, every address-length pair, path types empty/standard (<= 4 hop fields)/one-hop/unknown); every accessor and mutator in the repository's exerciser list" fns="ScionHeaderView::*,StandardPathView::*,OneHopPathView::*,InfoFieldView::*,HopFieldView::*,ScionHeaderLayout::try_from_slice" stubs="calculate_hop_mac -> arbitrary 6 bytes (one-hop set_second_hop)"
#[kani::proof]
#[kani::unwind(8)]
#[kani::stub(crate::dataplane_path::standard::mac::algo::calculate_hop_mac, mac_stub)]
fn c02_exerciser_header_n100() {
    exerciser_header::<100>()
}

fn exerciser_packet<const N: usize>() {
    let len: usize = kani::any();
    kani::assume(len <= N);
    let mut buf: [u8; N] = kani::any();
    if let Some(v) = ctor_contract!(ScionRawPacketView, buf, len) {
        kani::cover!(v.try_as_udp().is_ok(), "UDP packet view accepted");
        kani::cover!(v.try_as_scmp().is_ok(), "SCMP packet view accepted");
        let whole = v.as_slice().as_ptr() as usize;
        let wlen = v.as_slice().len();
        let p = v.payload();
        assert!(p.is_empty() || (p.as_ptr() as usize >= whole && p.as_ptr() as usize + p.len() <= whole + wlen), "payload outside the packet view");
        vfc::packet::exec_every_view_function(v);
    }
}

// verif: prop=C02 tier=quick cap=1500 bound="all byte strings <= 80 B as SCION packet (header as above with <= 2 hop fields, payload truncation, UDP and SCMP classification and typed views)" fns="ScionRawPacketView::*,ScionUdpPacketView::*,ScionScmpPacketView::*,try_classify,UdpDatagramView::*,ScmpPayloadView::*" stubs="calculate_hop_mac -> arbitrary 6 bytes"
#[kani::proof]
#[kani::unwind(6)]
#[kani::stub(crate::dataplane_path::standard::mac::algo::calculate_hop_mac, mac_stub)]
fn c02_exerciser_packet_n80() {
    exerciser_packet::<80>()
}

fn exerciser_scmp<const N: usize>() {
    let len: usize = kani::any();
    kani::assume(len <= N);
    let mut buf: [u8; N] = kani::any();
    if let Some(v) = ctor_contract!(ScmpPayloadView, buf, len) {
        kani::cover!(true, "SCMP payload accepted");
        vfc::payload::scmp::exec_every_view_function(v);
    }
}

// verif: prop=C02 tier=quick cap=900 bound="all byte strings <= 64 B as SCMP payload: every message type/code, every message sub-view" fns="ScmpPayloadView::*,Scmp*MessageView::*" stubs="none"
#[kani::proof]
#[kani::unwind(4)]
fn c02_exerciser_scmp_n64() {
    exerciser_scmp::<64>()
}

fn exerciser_udp<const N: usize>() {
    let len: usize = kani::any();
    kani::assume(len <= N);
    let mut buf: [u8; N] = kani::any();
    if let Some(v) = ctor_contract!(UdpDatagramView, buf, len) {
        kani::cover!(v.payload().len() > 0, "UDP datagram with payload accepted");
        vfc::payload::udp::exec_every_view_function(v);
    }
}

// verif: prop=C02 tier=quick cap=600 bound="all byte strings <= 64 B as UDP datagram" fns="UdpDatagramView::*" stubs="none"
#[kani::proof]
#[kani::unwind(4)]
fn c02_exerciser_udp_n64() {
    exerciser_udp::<64>()
}

fn exerciser_stdpath<const N: usize>() {
    let len: usize = kani::any();
    kani::assume(len <= N);
    let mut buf: [u8; N] = kani::any();
    if let Some(v) = ctor_contract!(StandardPathView, buf, len) {
        kani::cover!(v.hop_field_count() >= 5, "five hop fields accepted");
        vfc::path::exec_standard_path_view_mut(v);
        // safe pointer setters with arbitrary arguments, then everything again
        v.set_curr_hop_field(kani::any());
        v.set_curr_info_field(kani::any());
        vfc::path::exec_standard_path_view(v);
        let _ = v.try_reverse();
        vfc::path::exec_standard_path_view(v);
    }
}

// verif: prop=C02 tier=quick cap=1500 bound="all byte strings <= 100 B as standard path (<= 6 hop fields): all accessors/mutators, then arbitrary pointer setters, then reversal, accessors again" fns="StandardPathView::*,InfoFieldView::*,HopFieldView::*,StdPathLayout::try_from_slice" stubs="none"
#[kani::proof]
#[kani::unwind(9)]
fn c02_exerciser_stdpath_n100() {
    exerciser_stdpath::<100>()
}

// ---------------------------------------------------------------- loop-free, large N

/// Every header accessor plus hop/info field k for a symbolic k; sub-slices handed out lie
/// inside the view.
fn header_indexed<const N: usize>() {
    let len: usize = kani::any();
    kani::assume(len <= N);
    let k: usize = kani::any();
    let mut buf: [u8; N] = kani::any();
    let Some(v) = ctor_contract!(ScionHeaderView, buf, len) else { return };
    let all = unsafe { std::slice::from_raw_parts(v.as_slice().as_ptr(), v.as_slice().len()) };
    assert!(all.len() == v.header_len() as usize, "view size differs from the header length field");
    assert!(all.len() <= 1020 && all.len() % 4 == 0);
    kani::cover!(all.len() > 1000, "header longer than 1000 bytes accepted");
    let _ = (v.version(), v.traffic_class(), v.flow_id(), v.next_header(), v.payload_len(), v.path_type());
    let _ = (v.dst_ia(), v.src_ia(), v.dst_isd(), v.src_isd(), v.dst_as(), v.src_as());
    let _ = (v.dst_addr_type(), v.src_addr_type(), v.dst_host_addr().is_ok(), v.src_host_addr().is_ok());
    let r = v.src_host_addr_range().containing_byte_range();
    assert!(r.end <= all.len(), "source host address range outside the header");
    v.set_flow_id(kani::any());
    v.set_traffic_class(kani::any());
    v.set_version(kani::any());
    v.set_src_isd(crate::identifier::isd::Isd(kani::any()));
    v.set_dst_as(crate::identifier::asn::Asn(kani::any()));
    match v.path_mut() {
        ScionDpPathViewRefMut::Empty => {}
        ScionDpPathViewRefMut::Standard(p) => {
            assert!(within(all, p.as_slice()), "path view outside the header");
            if let Some(h) = p.hop_field_mut(k) {
                kani::cover!(k >= 60, "hop field with index >= 60 reachable");
                assert!(within(all, h.as_slice()), "hop field outside the header");
                h.set_cons_ingress(kani::any());
                h.set_mac(crate::dataplane_path::standard::types::HopFieldMac(kani::any()));
                let _ = (h.exp_time(), h.cons_egress(), h.flags(), h.mac());
            }
            if let Some(i) = p.info_field_mut(k) {
                assert!(within(all, i.as_slice()), "info field outside the header");
                i.set_segment_id(kani::any());
                i.set_timestamp(kani::any());
                let _ = (i.flags(), i.timestamp());
            }
            let _ = (p.curr_hop_field().is_some(), p.curr_info_field().is_some(), p.curr_egress_interface());
            let _ = p.calculate_segment_index(k);
            if let Some(r) = p.checked_hop_field_range(k) {
                assert!(r.end <= p.as_slice().len());
            }
            p.set_curr_hop_field(kani::any());
            p.set_curr_info_field(kani::any());
            let _ = (p.curr_hop_field().is_some(), p.curr_info_field().is_some(), p.curr_egress_interface());
        }
        ScionDpPathViewRefMut::OneHop(p) => {
            assert!(within(all, p.as_slice()), "one-hop path outside the header");
            let _ = (p.info_field().timestamp(), p.hop_fields()[1].cons_egress());
        }
        ScionDpPathViewRefMut::Unsupported { buf, .. } => {
            assert!(within(all, buf), "unsupported path bytes outside the header");
        }
    }
}

// verif: prop=C02 tier=quick cap=1200 bound="all byte strings <= 1100 B as SCION header: every size-determining field (path type, address nibbles, header length, three segment lengths, pointers) x every truncation point; hop/info field at any index" fns="ScionHeaderView::{try_from_mut_slice,path_mut,...},ScionHeaderLayout::try_from_slice,StandardPathView::{hop_field_mut,info_field_mut,calculate_segment_index,checked_hop_field_range},setters" stubs="none"
#[kani::proof]
#[kani::unwind(4)]
fn c02_header_indexed_n1100() {
    header_indexed::<1100>()
}

fn packet_indexed<const N: usize>() {
    let len: usize = kani::any();
    kani::assume(len <= N);
    let mut buf: [u8; N] = kani::any();
    let Some(v) = ctor_contract!(ScionRawPacketView, buf, len) else { return };
    let all = unsafe { std::slice::from_raw_parts(v.as_slice().as_ptr(), v.as_slice().len()) };
    assert!(within(all, v.header().as_slice()));
    assert!(within(all, v.payload()), "payload outside the packet");
    assert!(v.header().as_slice().len() + v.payload().len() == all.len(), "header + payload != packet view");
    assert!(v.payload().len() <= v.header().payload_len() as usize, "payload longer than announced");
    kani::cover!(v.payload().len() < v.header().payload_len() as usize, "payload truncated to the available bytes");
    let pm = v.payload_mut();
    if let Some(b) = pm.last_mut() {
        *b = kani::any();
    }
    if let Ok(u) = v.try_as_udp_mut() {
        kani::cover!(true, "UDP view");
        assert!(within(all, u.udp().as_slice()) && within(all, u.udp().payload()), "UDP datagram outside the packet");
        let _ = (u.udp().src_port(), u.udp().length(), u.udp().checksum(), u.src_socket_addr().is_ok(), u.dst_socket_addr().is_ok());
    }
    if let Ok(s) = v.try_as_scmp_mut() {
        kani::cover!(true, "SCMP view");
        assert!(within(all, s.scmp().as_slice()), "SCMP payload outside the packet");
        let _ = (s.scmp().message_type(), s.scmp().code(), s.scmp().checksum(), s.scmp().dst_port());
    }
    let _ = v.try_classify().is_ok();
    let _ = (v.src_scion_addr().is_ok(), v.dst_scion_addr().is_ok());
}

// verif: prop=C02 tier=quick cap=1200 bound="all byte strings <= 320 B as SCION packet: header/payload split, payload truncation, UDP/SCMP typed views" fns="ScionRawPacketView::{try_from_mut_slice,payload,payload_mut,try_as_udp_mut,try_as_scmp_mut,try_classify},UdpDatagramView,ScmpPayloadView" stubs="none"
#[kani::proof]
#[kani::unwind(4)]
fn c02_packet_indexed_n320() {
    packet_indexed::<320>()
}

// verif: prop=C02 tier=thorough cap=3000 mem=24 bound="all byte strings <= 1300 B as SCION packet" fns="ScionRawPacketView::*" stubs="none"
#[kani::proof]
#[kani::unwind(4)]
fn c02_packet_indexed_n1300() {
    packet_indexed::<1300>()
}

// verif: prop=C02 tier=thorough cap=3000 mem=24 bound="all byte strings <= 200 B as SCION header through the repository's exerciser (<= 12 hop fields)" fns="ScionHeaderView::*,StandardPathView::*" stubs="calculate_hop_mac -> arbitrary 6 bytes"
#[kani::proof]
#[kani::unwind(15)]
#[kani::stub(crate::dataplane_path::standard::mac::algo::calculate_hop_mac, mac_stub)]
fn c02_exerciser_header_n200() {
    exerciser_header::<200>()
}
