//! verif-attach: file=crates/libs/sciparse/src/core/view.rs crate=sciparse mod=verif_c02 features=fuzz
//!
//! C02 — parsing untrusted bytes is total and memory-safe.
//!
//! Input = every byte string up to N bytes (a prefix `&buf[..len]` of a symbolic array with a
//! symbolic length). All view code reaches its bytes through `slice::get_unchecked*` on the view's
//! own slice and `debug_assert!`s, whose preconditions Kani checks against the *slice* length, so
//! a read or write one byte past what the view reported as its own is a failed check even though
//! it stays inside the array. Two families:
//!  * the repository's own exhaustive exercisers (`util::fuzz::view_function_checks`, the list the
//!    maintainers keep of every accessor and mutator) on all inputs up to a small N, loops unwound;
//!  * loop-free harnesses with a symbolic field index on all inputs up to 1100 bytes (the whole
//!    header space of 1020 bytes plus truncation points).
#![allow(dead_code, unused_imports, clippy::all)]
use super::*;
use crate::dataplane_path::onehop::view::OneHopPathView;
use crate::dataplane_path::standard::view::StandardPathView;
use crate::dataplane_path::view::{ScionDpPathViewRef, ScionDpPathViewRefMut};
use crate::header::view::ScionHeaderView;
use crate::packet::view::{ScionRawPacketView, ScionScmpPacketView, ScionUdpPacketView};
use crate::payload::scmp::view::ScmpPayloadView;
use crate::payload::udp::view::UdpDatagramView;
use crate::util::fuzz::view_function_checks as vfc;

/// one-hop `set_second_hop` computes an AES-CMAC; its value is irrelevant to memory safety
fn mac_stub(_b: u16, _t: u32, _e: u8, _i: u16, _g: u16, _k: &crate::dataplane_path::standard::mac::ForwardingKey) -> [u8; 6] {
    kani::any()
}

fn within(outer: &[u8], inner: &[u8]) -> bool {
    let o = outer.as_ptr() as usize;
    let i = inner.as_ptr() as usize;
    inner.is_empty() || (i >= o && i + inner.len() <= o + outer.len())
}

/// constructor contract shared by all views: consumed + rest = input, view is the input prefix
macro_rules! ctor_contract {
    ($ty:ty, $buf:expr, $len:expr) => {{
        let total = $len;
        let base = $buf.as_ptr() as usize;
        match <$ty>::try_from_mut_slice(&mut $buf[..$len]) {
            Ok((v, rest)) => {
                assert!(v.as_slice().len() + rest.len() == total, "view + rest != input");
                assert!(v.as_slice().as_ptr() as usize == base, "view does not start at the input");
                Some(v)
            }
            Err(_) => None,
        }
    }};
}

// ---------------------------------------------------------------- repository exercisers, small N

fn exerciser_header<const N: usize>() {
    let len: usize = kani::any();
    kani::assume(len <= N);
    let mut buf: [u8; N] = kani::any();
    if let Some(v) = ctor_contract!(ScionHeaderView, buf, len) {
        kani::cover!(matches!(v.path(), ScionDpPathViewRef::Standard(_)), "standard path header accepted");
        kani::cover!(matches!(v.path(), ScionDpPathViewRef::OneHop(_)), "one-hop path header accepted");
        vfc::header::exec_every_view_function(v);
    }
}

// verif: prop=C02 tier=off cap=3400 mem=30 bound="all byte strings <= 72 B as SCION header (common+address header, every address-length pair, path types empty/standard (<= 2 hop fields)/one-hop/unknown); every accessor and mutator in the repository's exerciser list" fns="ScionHeaderView::*,StandardPathView::*,OneHopPathView::*,InfoFieldView::*,HopFieldView::*,ScionHeaderLayout::try_from_slice" stubs="calculate_hop_mac -> arbitrary 6 bytes (one-hop set_second_hop)"
#[kani::proof]
#[kani::unwind(18)]
#[kani::stub(crate::dataplane_path::standard::mac::algo::calculate_hop_mac, mac_stub)]
fn c02_exerciser_header_n72() {
    exerciser_header::<72>()
}

// verif: prop=C02 tier=off cap=3400 mem=30 bound="all byte strings <= 100 B as SCION header (<= 4 hop fields) through the repository's exerciser" fns="ScionHeaderView::*,StandardPathView::*,OneHopPathView::*" stubs="calculate_hop_mac -> arbitrary 6 bytes"
#[kani::proof]
#[kani::unwind(18)]
#[kani::stub(crate::dataplane_path::standard::mac::algo::calculate_hop_mac, mac_stub)]
fn c02_exerciser_header_n100() {
    exerciser_header::<100>()
}

fn exerciser_packet<const N: usize>() {
    let len: usize = kani::any();
    kani::assume(len <= N);
    let mut buf: [u8; N] = kani::any();
    if let Some(v) = ctor_contract!(ScionRawPacketView, buf, len) {
        kani::cover!(v.try_as_udp().is_ok(), "UDP packet view accepted");
        kani::cover!(v.try_as_scmp().is_ok(), "SCMP packet view accepted");
        let whole = v.as_slice().as_ptr() as usize;
        let wlen = v.as_slice().len();
        let p = v.payload();
        assert!(p.is_empty() || (p.as_ptr() as usize >= whole && p.as_ptr() as usize + p.len() <= whole + wlen), "payload outside the packet view");
        vfc::packet::exec_every_view_function(v);
    }
}

// verif: prop=C02 tier=off cap=3400 mem=30 bound="all byte strings <= 80 B as SCION packet (header with <= 2 hop fields, payload truncation, UDP and SCMP classification and typed views) through the repository's exerciser" fns="ScionRawPacketView::*,ScionUdpPacketView::*,ScionScmpPacketView::*,try_classify,UdpDatagramView::*,ScmpPayloadView::*" stubs="calculate_hop_mac -> arbitrary 6 bytes"
#[kani::proof]
#[kani::unwind(18)]
#[kani::stub(crate::dataplane_path::standard::mac::algo::calculate_hop_mac, mac_stub)]
fn c02_exerciser_packet_n80() {
    exerciser_packet::<80>()
}

fn exerciser_scmp<const N: usize>() {
    let len: usize = kani::any();
    kani::assume(len <= N);
    let mut buf: [u8; N] = kani::any();
    if let Some(v) = ctor_contract!(ScmpPayloadView, buf, len) {
        kani::cover!(true, "SCMP payload accepted");
        vfc::payload::scmp::exec_every_view_function(v);
    }
}

// verif: prop=C02 tier=quick cap=2400 bound="all byte strings <= 32 B as SCMP payload: every message type/code, every message sub-view" fns="ScmpPayloadView::*,Scmp*MessageView::*" stubs="none"
#[kani::proof]
#[kani::unwind(4)]
fn c02_exerciser_scmp_n32() {
    exerciser_scmp::<32>()
}

// verif: prop=C02 tier=thorough cap=2000 bound="all byte strings <= 64 B as SCMP payload" fns="ScmpPayloadView::*,Scmp*MessageView::*" stubs="none"
#[kani::proof]
#[kani::unwind(4)]
fn c02_exerciser_scmp_n64() {
    exerciser_scmp::<64>()
}

fn exerciser_udp<const N: usize>() {
    let len: usize = kani::any();
    kani::assume(len <= N);
    let mut buf: [u8; N] = kani::any();
    if let Some(v) = ctor_contract!(UdpDatagramView, buf, len) {
        kani::cover!(v.payload().len() > 0, "UDP datagram with payload accepted");
        vfc::payload::udp::exec_every_view_function(v);
    }
}

// verif: prop=C02 tier=quick cap=600 bound="all byte strings <= 64 B as UDP datagram" fns="UdpDatagramView::*" stubs="none"
#[kani::proof]
#[kani::unwind(4)]
fn c02_exerciser_udp_n64() {
    exerciser_udp::<64>()
}

fn exerciser_stdpath<const N: usize, const FULL: bool>() {
    let len: usize = kani::any();
    kani::assume(len <= N);
    let mut buf: [u8; N] = kani::any();
    if let Some(v) = ctor_contract!(StandardPathView, buf, len) {
        kani::cover!(v.hop_field_count() >= 2, "two hop fields accepted");
        vfc::path::exec_standard_path_view_mut(v);
        let _ = v.expiration();
        if FULL {
            // safe pointer setters with arbitrary arguments, then everything again
            v.set_curr_hop_field(kani::any());
            v.set_curr_info_field(kani::any());
            vfc::path::exec_standard_path_view(v);
            let _ = v.try_reverse();
            vfc::path::exec_standard_path_view(v);
        }
    }
}

// verif: prop=C02 tier=thorough cap=3400 mem=30 bound="all byte strings <= 44 B as standard path (<= 2 hop fields): all accessors/mutators of the repository's exerciser list and expiration() (setter/reversal sequences: thorough tier and C11/C12 harnesses)" fns="StandardPathView::*,InfoFieldView::*,HopFieldView::*,StdPathLayout::try_from_slice" stubs="none"
#[kani::proof]
#[kani::unwind(5)]
fn c02_exerciser_stdpath_n44() {
    exerciser_stdpath::<44, false>()
}

// verif: prop=C02 tier=off cap=3400 mem=30 bound="all byte strings <= 64 B as standard path (<= 3 hop fields, <= 3 segments) through the repository's exerciser" fns="StandardPathView::*" stubs="none"
#[kani::proof]
#[kani::unwind(6)]
fn c02_exerciser_stdpath_n64() {
    exerciser_stdpath::<64, true>()
}

// verif: prop=C02 tier=off cap=3400 mem=30 bound="all byte strings <= 100 B as standard path (<= 6 hop fields) through the repository's exerciser" fns="StandardPathView::*" stubs="none"
#[kani::proof]
#[kani::unwind(9)]
fn c02_exerciser_stdpath_n100() {
    exerciser_stdpath::<100, true>()
}

/// standalone path views (RPC paths, `ScionPath`): constructor contract and indexed access
fn stdpath_indexed<const N: usize>() {
    let len: usize = kani::any();
    kani::assume(len <= N);
    let k: usize = kani::any();
    let mut buf: [u8; N] = kani::any();
    let Some(v) = ctor_contract!(StandardPathView, buf, len) else { return };
    let all = unsafe { std::slice::from_raw_parts(v.as_slice().as_ptr(), v.as_slice().len()) };
    let want = 4 + 8 * v.info_field_count() as usize + 12 * v.hop_field_count() as usize;
    assert!(all.len() == want, "path view size differs from meta + info fields + hop fields");
    kani::cover!(v.hop_field_count() as usize * 12 + 28 > N - 12, "path filling the buffer accepted");
    if let Some(h) = v.hop_field_mut(k) {
        assert!(within(all, h.as_slice()), "hop field outside the path view");
        h.set_mac(crate::dataplane_path::standard::types::HopFieldMac(kani::any()));
        h.set_cons_egress(kani::any());
    }
    if let Some(i) = v.info_field_mut(k) {
        assert!(within(all, i.as_slice()), "info field outside the path view");
        i.set_timestamp(kani::any());
    }
    assert!(within(all, OneHopPathView::try_from_slice(all).map(|(o, _)| o.as_slice()).unwrap_or(&[])));
}

// verif: prop=C02 tier=quick cap=1200 bound="all byte strings <= 160 B as standalone standard path (every segment-length triple, every truncation point), hop/info field at any index; one-hop view of the same bytes" fns="StandardPathView::{try_from_mut_slice,hop_field_mut,info_field_mut},StdPathLayout::try_from_slice,OneHopPathView::try_from_slice" stubs="none"
#[kani::proof]
#[kani::unwind(4)]
fn c02_stdpath_indexed_n160() {
    stdpath_indexed::<160>()
}

// ---------------------------------------------------------------- loop-free, large N

/// Every header accessor that does not build a host address, plus hop/info field k for a symbolic
/// k; sub-slices handed out lie inside the view.
fn header_indexed<const N: usize>() {
    let len: usize = kani::any();
    kani::assume(len <= N);
    let k: usize = kani::any();
    let mut buf: [u8; N] = kani::any();
    let Some(v) = ctor_contract!(ScionHeaderView, buf, len) else { return };
    let all = unsafe { std::slice::from_raw_parts(v.as_slice().as_ptr(), v.as_slice().len()) };
    assert!(all.len() == v.header_len() as usize, "view size differs from the header length field");
    assert!(all.len() <= 1020 && all.len() % 4 == 0);
    kani::cover!(all.len() + 100 > N && N < 1021 || all.len() > 1000, "header near the top of the bound accepted");
    let _ = (v.version(), v.traffic_class(), v.flow_id(), v.next_header(), v.payload_len(), v.path_type());
    let _ = (v.dst_ia(), v.src_ia(), v.dst_isd(), v.src_isd(), v.dst_as(), v.src_as());
    let _ = (v.dst_addr_type(), v.src_addr_type());
    let r = v.src_host_addr_range().containing_byte_range();
    assert!(r.end <= all.len(), "source host address range outside the header");
    v.set_flow_id(kani::any());
    v.set_traffic_class(kani::any());
    v.set_version(kani::any());
    v.set_src_isd(crate::identifier::isd::Isd(kani::any()));
    v.set_dst_as(crate::identifier::asn::Asn(kani::any()));
    v.set_src_as(crate::identifier::asn::Asn(kani::any()));
    v.set_dst_isd(crate::identifier::isd::Isd(kani::any()));
    v.set_next_header(crate::payload::ProtocolNumber::from(kani::any::<u8>()));
    match v.path_mut() {
        ScionDpPathViewRefMut::Empty => {}
        ScionDpPathViewRefMut::Standard(p) => {
            assert!(within(all, p.as_slice()), "path view outside the header");
            if let Some(h) = p.hop_field_mut(k) {
                kani::cover!(k >= 10, "hop field with index >= 10 reachable");
                assert!(within(all, h.as_slice()), "hop field outside the header");
                h.set_cons_ingress(kani::any());
                h.set_mac(crate::dataplane_path::standard::types::HopFieldMac(kani::any()));
                let _ = (h.exp_time(), h.cons_egress(), h.flags(), h.mac());
            }
            if let Some(i) = p.info_field_mut(k) {
                assert!(within(all, i.as_slice()), "info field outside the header");
                i.set_segment_id(kani::any());
                i.set_timestamp(kani::any());
                let _ = (i.flags(), i.timestamp());
            }
            let _ = (p.curr_hop_field().is_some(), p.curr_info_field().is_some(), p.curr_egress_interface());
            if let Some(h) = p.curr_hop_field_mut() {
                assert!(within(all, h.as_slice()), "current hop field outside the header");
                h.set_exp_time(kani::any());
            }
            if let Some(i) = p.curr_info_field_mut() {
                assert!(within(all, i.as_slice()), "current info field outside the header");
                i.set_flags(crate::dataplane_path::standard::types::InfoFieldFlags::from_bits_retain(kani::any()));
            }
            if let (Some(h), Some(i)) = (p.hop_field(k), p.info_field(0)) {
                let _ = (h.ingress_scmp_alert(i), h.egress_scmp_alert(i), h.expiry_timestamp(i), h.ingress_interface(i), h.egress_interface(i));
            }
            let _ = p.calculate_segment_index(k);
            let _ = (p.seg0_len(), p.seg1_len(), p.seg2_len(), p.curr_hop_field_idx(), p.curr_info_field_idx());
            let n_inf = p.info_fields().len();
            let n_hop = p.hop_fields().len();
            assert!(n_inf <= 3 && 4 + 8 * n_inf + 12 * n_hop == p.as_slice().len(), "info/hop field slices do not tile the path");
            if let Some(i) = p.info_fields_mut().first_mut() {
                assert!(within(all, i.as_slice()));
                let _ = i.segment_id();
            }
            if let Some(h) = p.hop_fields_mut().last_mut() {
                assert!(within(all, h.as_slice()), "last hop field outside the header");
                let _ = h.cons_ingress();
            }
            if let Some(r) = p.checked_hop_field_range(k) {
                assert!(r.end <= p.as_slice().len());
            }
            p.set_curr_hop_field(kani::any());
            p.set_curr_info_field(kani::any());
            let _ = (p.curr_hop_field().is_some(), p.curr_info_field().is_some(), p.curr_egress_interface());
        }
        ScionDpPathViewRefMut::OneHop(p) => {
            assert!(within(all, p.as_slice()), "one-hop path outside the header");
            let _ = (p.info_field().timestamp(), p.hop_fields()[1].cons_egress());
            let [h1, h2] = p.mut_hop_fields();
            assert!(within(all, h1.as_slice()) && within(all, h2.as_slice()), "one-hop hop fields outside the header");
            h2.set_cons_egress(kani::any());
        }
        ScionDpPathViewRefMut::Unsupported { buf, .. } => {
            assert!(within(all, buf), "unsupported path bytes outside the header");
        }
    }
}

// verif: prop=C02 tier=quick cap=2400 bound="all byte strings <= 300 B as SCION header: every size-determining field (path type, address nibbles, header length, three segment lengths, pointers) x every truncation point; hop/info field at any index (<= 20 hop fields)" fns="ScionHeaderView::{try_from_mut_slice,path_mut,...},ScionHeaderLayout::try_from_slice,StandardPathView::{hop_field_mut,info_field_mut,curr_*_mut,calculate_segment_index,checked_hop_field_range},HopFieldView/InfoFieldView accessors and setters" stubs="none"
#[kani::proof]
#[kani::unwind(4)]
fn c02_header_indexed_n300() {
    header_indexed::<300>()
}

// verif: prop=C02 tier=thorough cap=3000 mem=24 bound="all byte strings <= 1100 B as SCION header: the whole 1020-byte header space x every truncation point" fns="as c02_header_indexed_n300" stubs="none"
#[kani::proof]
#[kani::unwind(4)]
fn c02_header_indexed_n1100() {
    header_indexed::<1100>()
}

/// host addresses are built through an ArrayVec<[u8;16]> (16-step default initialisation)
fn header_hostaddr<const N: usize>() {
    let len: usize = kani::any();
    kani::assume(len <= N);
    let mut buf: [u8; N] = kani::any();
    let Some(v) = ctor_contract!(ScionHeaderView, buf, len) else { return };
    let n = v.as_slice().len();
    let r = v.src_host_addr_range().containing_byte_range();
    assert!(r.end <= n && r.end - r.start == v.src_addr_type().size() as usize);
    match v.dst_host_addr() {
        Ok(a) => {
            kani::cover!(matches!(a, crate::address::host_addr::WireHostAddr::Unknown { .. }), "unknown destination address type read");
            assert!(crate::core::encode::WireEncode::required_size(&a) == v.dst_addr_type().size() as usize);
        }
        Err(_) => {}
    }
    let _ = v.src_host_addr().is_ok();
}

// verif: prop=C02 tier=quick cap=900 bound="all byte strings <= 76 B as SCION header: destination/source host address of every type and length" fns="ScionHeaderView::{dst_host_addr,src_host_addr,src_host_addr_range},WireHostAddr::try_from_parts" stubs="none"
#[kani::proof]
#[kani::unwind(18)]
fn c02_header_hostaddr_n76() {
    header_hostaddr::<76>()
}

fn packet_raw<const N: usize>() {
    let len: usize = kani::any();
    kani::assume(len <= N);
    let mut buf: [u8; N] = kani::any();
    let Some(v) = ctor_contract!(ScionRawPacketView, buf, len) else { return };
    let all = unsafe { std::slice::from_raw_parts(v.as_slice().as_ptr(), v.as_slice().len()) };
    assert!(within(all, v.header().as_slice()));
    assert!(within(all, v.payload()), "payload outside the packet");
    assert!(v.header().as_slice().len() + v.payload().len() == all.len(), "header + payload != packet view");
    assert!(v.payload().len() <= v.header().payload_len() as usize, "payload longer than announced");
    kani::cover!(v.payload().len() < v.header().payload_len() as usize, "payload truncated to the available bytes");
    kani::cover!(v.payload().len() > 0, "packet with payload accepted");
    let hm = v.header_mut();
    hm.set_flow_id(kani::any());
    let pm = v.payload_mut();
    if let Some(b) = pm.last_mut() {
        *b = kani::any();
    }
    assert!(within(all, v.payload()));
}

// verif: prop=C02 tier=quick cap=1200 bound="all byte strings <= 160 B as SCION packet: header/payload split, payload truncation to the available bytes, mutable payload" fns="ScionRawPacketView::{try_from_mut_slice,header,header_mut,payload,payload_mut}" stubs="none"
#[kani::proof]
#[kani::unwind(4)]
fn c02_packet_raw_n160() {
    packet_raw::<160>()
}

fn packet_typed_udp<const N: usize>() {
    let len: usize = kani::any();
    kani::assume(len <= N);
    let mut buf: [u8; N] = kani::any();
    let Some(v) = ctor_contract!(ScionRawPacketView, buf, len) else { return };
    let all = unsafe { std::slice::from_raw_parts(v.as_slice().as_ptr(), v.as_slice().len()) };
    if let Ok(u) = v.try_as_udp_mut() {
        kani::cover!(u.udp().payload().len() > 0, "UDP view with payload");
        assert!(within(all, u.udp().as_slice()) && within(all, u.udp().payload()), "UDP datagram outside the packet");
        let _ = (u.udp().src_port(), u.udp().dst_port(), u.udp().length(), u.udp().checksum());
        assert!(within(all, u.as_raw_mut().as_slice()));
    }
    if let Ok(u) = ScionUdpPacketView::try_from_raw(v) {
        assert!(within(all, u.as_slice()));
    }
    if let Ok(u) = ScionUdpPacketView::try_from_raw_mut(v) {
        assert!(within(all, u.as_raw().as_slice()));
    }
    let _ = v.try_classify().is_ok();
}

fn packet_typed_scmp<const N: usize>() {
    let len: usize = kani::any();
    kani::assume(len <= N);
    let mut buf: [u8; N] = kani::any();
    let Some(v) = ctor_contract!(ScionRawPacketView, buf, len) else { return };
    let all = unsafe { std::slice::from_raw_parts(v.as_slice().as_ptr(), v.as_slice().len()) };
    if let Ok(s) = v.try_as_scmp_mut() {
        kani::cover!(true, "SCMP view");
        assert!(within(all, s.scmp().as_slice()), "SCMP payload outside the packet");
        let _ = (s.scmp().message_type(), s.scmp().code(), s.scmp().checksum(), s.scmp().dst_port());
        assert!(within(all, s.as_raw().as_slice()));
    }
    if let Ok(sv) = ScionScmpPacketView::try_from_raw(v) {
        assert!(within(all, sv.as_slice()));
    }
    if let Ok(sv) = ScionScmpPacketView::try_from_raw_mut(v) {
        assert!(within(all, sv.as_raw().as_slice()));
    }
}

// verif: prop=C02 tier=quick cap=2400 bound="all byte strings <= 96 B as SCION packet: UDP typed views (by reference and mutable), classification" fns="ScionRawPacketView::{try_as_udp_mut,try_classify},ScionUdpPacketView::{try_from_raw,try_from_raw_mut,udp,as_raw,as_raw_mut},UdpDatagramView" stubs="none"
#[kani::proof]
#[kani::unwind(4)]
fn c02_packet_udp_n96() {
    packet_typed_udp::<96>()
}

// verif: prop=C02 tier=quick cap=2400 bound="all byte strings <= 96 B as SCION packet: SCMP typed views, classification" fns="ScionRawPacketView::{try_as_scmp_mut,try_classify},ScionScmpPacketView::{try_from_raw,try_from_raw_mut,scmp,as_raw},ScmpPayloadView" stubs="none"
#[kani::proof]
#[kani::unwind(4)]
fn c02_packet_scmp_n96() {
    packet_typed_scmp::<96>()
}

/// Typed packet views built directly from an (uncut) input with arbitrary trailing bytes - not
/// from an already cut raw view: the constructor contract, and the accessors that `expect` what the
/// constructor checked.
fn packet_typed_direct_udp<const N: usize>() {
    let len: usize = kani::any();
    kani::assume(len <= N);
    let mut buf: [u8; N] = kani::any();
    let Some(u) = ctor_contract!(ScionUdpPacketView, buf, len) else { return };
    let all = unsafe { std::slice::from_raw_parts(u.as_slice().as_ptr(), u.as_slice().len()) };
    kani::cover!(all.len() < len, "typed UDP view with trailing bytes behind it");
    let d = u.udp();
    assert!(within(all, d.as_slice()) && within(all, d.payload()), "UDP datagram outside the packet");
    let _ = (d.src_port(), d.dst_port(), d.length(), d.checksum());
    assert!(within(all, u.as_raw().as_slice()));
}

fn packet_typed_direct_scmp<const N: usize>() {
    let len: usize = kani::any();
    kani::assume(len <= N);
    let mut buf: [u8; N] = kani::any();
    let Some(sv) = ctor_contract!(ScionScmpPacketView, buf, len) else { return };
    let all = unsafe { std::slice::from_raw_parts(sv.as_slice().as_ptr(), sv.as_slice().len()) };
    kani::cover!(all.len() < len, "typed SCMP view with trailing bytes behind it");
    let m = sv.scmp();
    assert!(within(all, m.as_slice()), "SCMP message outside the packet");
    let _ = (m.message_type(), m.code(), m.checksum());
    assert!(within(all, sv.as_raw().as_slice()));
}

// verif: prop=C02 tier=quick cap=2400 bound="all byte strings <= 96 B handed directly to the typed UDP packet view constructor (any trailing bytes)" fns="ScionUdpPacketView::{try_from_mut_slice,has_required_size,udp,as_raw},ScionPacketView::payload" stubs="none"
#[kani::proof]
#[kani::unwind(4)]
fn c02_packet_direct_udp_n96() {
    packet_typed_direct_udp::<96>()
}

// verif: prop=C02 tier=quick cap=2400 bound="all byte strings <= 96 B handed directly to the typed SCMP packet view constructor (any trailing bytes)" fns="ScionScmpPacketView::{try_from_mut_slice,has_required_size,scmp,as_raw},ScionPacketView::payload" stubs="none"
#[kani::proof]
#[kani::unwind(4)]
fn c02_packet_direct_scmp_n96() {
    packet_typed_direct_scmp::<96>()
}

/// addresses of a packet (host address construction: 16-step ArrayVec initialisation)
fn packet_addrs<const N: usize>() {
    let len: usize = kani::any();
    kani::assume(len <= N);
    let mut buf: [u8; N] = kani::any();
    let Some(v) = ctor_contract!(ScionRawPacketView, buf, len) else { return };
    let _ = (v.src_scion_addr().is_ok(), v.dst_scion_addr().is_ok());
    if let Ok(u) = v.try_as_udp() {
        kani::cover!(u.src_socket_addr().is_ok(), "UDP socket address read");
        let _ = u.dst_socket_addr().is_ok();
    }
}

// verif: prop=C02 tier=quick cap=1200 bound="all byte strings <= 76 B as SCION packet: SCION and socket addresses" fns="ScionPacketView::{src_scion_addr,dst_scion_addr},ScionUdpPacketView::{src_socket_addr,dst_socket_addr}" stubs="none"
#[kani::proof]
#[kani::unwind(18)]
fn c02_packet_addrs_n76() {
    packet_addrs::<76>()
}

/// owned (boxed) conversions between raw and typed packet views keep the size
fn packet_boxed<const N: usize>() {
    let len: usize = kani::any();
    kani::assume(len <= N);
    let mut buf: [u8; N] = kani::any();
    let Some(v) = ctor_contract!(ScionRawPacketView, buf, len) else { return };
    let n = v.as_slice().len();
    let b = v.to_boxed();
    assert!(b.as_slice().len() == n);
    match b.try_into_udp() {
        Ok(u) => {
            kani::cover!(true, "boxed UDP view");
            assert!(u.as_slice().len() == n && u.udp().as_slice().len() <= n);
            let r = u.into_raw();
            assert!(r.as_slice().len() == n);
            std::mem::forget(r);
        }
        Err(_) => {}
    }
    let b2 = v.to_boxed();
    match b2.try_into_scmp() {
        Ok(sv) => {
            assert!(sv.as_slice().len() == n);
            let r = sv.into_raw();
            assert!(r.as_slice().len() == n);
            std::mem::forget(r);
        }
        Err(_) => {}
    }
    let b3 = v.to_boxed();
    if let Ok(u) = ScionUdpPacketView::try_from_raw_owned(b3) {
        assert!(u.as_slice().len() == n);
        std::mem::forget(u);
    }
    let b4 = v.to_boxed();
    if let Ok(sv) = ScionScmpPacketView::try_from_raw_owned(b4) {
        assert!(sv.as_slice().len() == n);
        std::mem::forget(sv);
    }
}

// verif: prop=C02 tier=thorough cap=3400 mem=30 bound="all byte strings <= 56 B as SCION packet: owned (boxed) conversions raw <-> UDP/SCMP typed views" fns="View::to_boxed,ScionRawPacketView::{try_into_udp,try_into_scmp},ScionUdpPacketView::{try_from_raw_owned,into_raw},ScionScmpPacketView::{try_from_raw_owned,into_raw}" stubs="none"
#[kani::proof]
#[kani::unwind(4)]
fn c02_packet_boxed_n56() {
    packet_boxed::<56>()
}

// verif: prop=C02 tier=thorough cap=3400 mem=30 bound="all byte strings <= 320 B as SCION packet: header/payload split" fns="ScionRawPacketView::*" stubs="none"
#[kani::proof]
#[kani::unwind(4)]
fn c02_packet_raw_n320() {
    packet_raw::<320>()
}
