//! verif-attach: file=crates/libs/sciparse/src/proto/packet/model.rs crate=sciparse mod=verif_c03
//!
//! C03 — wire codec: announced size = written size, truthful length fields, models that do not
//! fit are rejected, every field reads back (through the crate's views and through an independent
//! reader written from the SCION header format), RFC 1071 checksums.
#![allow(dead_code, unused_imports, clippy::all)]
use std::net::{Ipv4Addr, Ipv6Addr};

use super::*;
use crate::address::host_addr::{ServiceAddr, WireHostAddr};
use crate::dataplane_path::onehop::model::OneHopPath;
use crate::dataplane_path::standard::model::{HopField, InfoField, Segment, StandardPath};
use crate::dataplane_path::standard::types::{HopFieldFlags, HopFieldMac, InfoFieldFlags};
use crate::identifier::isd_asn::IsdAsn;
use crate::reexport::tinyvec::{ArrayVec, TinyVec};
use crate::scion::checksum::ChecksumDigest;

/// address kind catalogue: 0 v4, 1 v6, 2 service, 3.. unknown type with 4/8/12/16 bytes
fn any_host(kind: u8) -> WireHostAddr {
    any_host_with(kind, true)
}

/// `canonical`: the unknown type id fits its two bits and (id, length) is not the wire code of a
/// known address type (such a model is a second spelling of V4/V6/service and decodes as that).
fn any_host_with(kind: u8, canonical: bool) -> WireHostAddr {
    match kind {
        0 => WireHostAddr::V4(Ipv4Addr::from(kani::any::<[u8; 4]>())),
        1 => WireHostAddr::V6(Ipv6Addr::from(kani::any::<[u8; 16]>())),
        2 => WireHostAddr::Svc(ServiceAddr(kani::any())),
        k => {
            let len = ((k - 3) as usize % 4 + 1) * 4;
            let id: u8 = kani::any();
            if canonical {
                kani::assume(id < 4);
                kani::assume(!((id == 0 && (len == 4 || len == 16)) || (id == 1 && len == 4)));
            }
            WireHostAddr::Unknown { id, bytes: ArrayVec::from_array_len(kani::any(), len) }
        }
    }
}

fn any_ia() -> IsdAsn {
    let v: u64 = kani::any();
    IsdAsn::from_u64(v)
}

fn any_hf() -> HopField {
    HopField {
        flags: HopFieldFlags::from_bits_retain(kani::any()),
        expiration_units: kani::any(),
        cons_ingress: kani::any(),
        cons_egress: kani::any(),
        mac: HopFieldMac(kani::any()),
    }
}
fn any_info() -> InfoField {
    InfoField { flags: InfoFieldFlags::from_bits_retain(kani::any()), segment_id: kani::any(), timestamp: kani::any() }
}

/// path kind catalogue: 0 empty, 1 one-hop, 2 standard (one segment, two hop fields)
fn any_path(kind: u8) -> DpPath {
    match kind {
        0 => DpPath::Empty,
        1 => DpPath::OneHop(OneHopPath::new_from_parts(any_info(), [any_hf(), any_hf()])),
        _ => {
            let mut hops = TinyVec::new();
            hops.push(any_hf());
            hops.push(any_hf());
            let mut p = StandardPath::new_empty();
            p.segments.push(Segment { info_field: any_info(), hop_fields: hops });
            p.current_hop_field = kani::any();
            p.current_info_field = kani::any();
            DpPath::Standard(p)
        }
    }
}

fn any_header(dst_kind: u8, src_kind: u8, path_kind: u8, next: ProtocolNumber) -> ScionPacketHeader {
    any_header_with(dst_kind, src_kind, path_kind, next, true)
}

fn any_header_with(dst_kind: u8, src_kind: u8, path_kind: u8, next: ProtocolNumber, canonical: bool) -> ScionPacketHeader {
    ScionPacketHeader {
        common: CommonHeader { traffic_class: kani::any(), flow_id: kani::any(), next_header: next },
        address: AddressHeader {
            dst_ia: any_ia(),
            src_ia: any_ia(),
            dst_host_addr: any_host_with(dst_kind, canonical),
            src_host_addr: any_host_with(src_kind, canonical),
        },
        path: any_path(path_kind),
    }
}

/// host address length on the wire for the kind catalogue
fn host_len(kind: u8) -> usize {
    match kind {
        0 | 2 => 4,
        1 => 16,
        k => ((k - 3) as usize % 4 + 1) * 4,
    }
}
fn path_len(kind: u8) -> usize {
    match kind {
        0 => 0,
        1 => 32,
        _ => 4 + 8 + 24,
    }
}

// ------------------------------------------------------------------ size gate

/// Payload *length* symbolic up to 2^17 (contents irrelevant), header shapes symbolic over the
/// catalogue: accepted => every length fits its wire field; announced size = sum of the parts.
/// `mode` 0: destination address kind symbolic (7 kinds), source IPv4, path empty/one-hop;
/// 1: source kind symbolic, destination IPv4; 2: IPv4/IPv4, standard path (model code with
/// TinyVec is costly for CBMC: its own instantiation)
fn size_gate(mode: u8) {
    let n: usize = kani::any();
    kani::assume(n <= 1 << 17);
    let dk: u8 = kani::any();
    let sk: u8 = kani::any();
    let pk: u8 = kani::any();
    match mode {
        0 => kani::assume(dk < 7 && sk == 0 && pk < 2),
        1 => kani::assume(dk == 0 && sk < 7 && pk < 2),
        _ => kani::assume(dk == 0 && sk == 0 && pk == 2),
    }
    let header = any_header_with(dk, sk, pk, ProtocolNumber::Other(kani::any()), false);
    let payload: Vec<u8> = vec![0u8; n];
    let pkt = ScionRawPacket { header, payload };
    let hdr = 12 + 16 + host_len(dk) + host_len(sk) + path_len(pk);
    assert!(pkt.header.required_size() == hdr, "header size differs from the SCION layout");
    assert!(pkt.required_size() == hdr + n, "announced size is not header + payload");
    match pkt.wire_valid() {
        Ok(()) => {
            kani::cover!(n == 65535, "largest payload accepted");
            assert!(n <= 65535, "payload that does not fit the 16-bit payload length accepted");
            assert!(hdr <= 1020 && hdr % 4 == 0);
            assert!(pkt.header.common.flow_id < (1 << 20), "flow id wider than 20 bits accepted");
            if let WireHostAddr::Unknown { id, .. } = &pkt.header.address.dst_host_addr {
                assert!(*id < 4, "address type id that does not fit its 2-bit field accepted");
            }
            if let WireHostAddr::Unknown { id, .. } = &pkt.header.address.src_host_addr {
                assert!(*id < 4, "address type id that does not fit its 2-bit field accepted");
            }
            if let DpPath::Standard(p) = &pkt.header.path {
                assert!(p.current_hop_field < 64 && p.current_info_field < 4, "path pointer wider than its field accepted");
            }
        }
        Err(_) => {
            kani::cover!(n > 65535, "oversize payload rejected");
        }
    }
    std::mem::forget(pkt);
}

// verif: prop=C03 tier=quick cap=2400 mem=16 bound="raw packets: payload length 0..2^17, destination address of all 7 kinds (v4, v6, service, unknown 4/8/12/16 B with any type id), source IPv4, path kinds empty/one-hop, all field values" fns="ScionPacket::<Vec<u8>>::{wire_valid,required_size},ScionPacketHeader::{wire_valid,required_size},AddressHeader,DpPath,WireHostAddr" stubs="none"
#[kani::proof]
#[kani::unwind(20)]
fn c03_size_gate_raw_dst() {
    size_gate(0)
}

// verif: prop=C03 tier=quick cap=2400 mem=16 bound="raw packets: payload length 0..2^17, source address of all 7 kinds, destination IPv4, path kinds empty/one-hop" fns="as c03_size_gate_raw_dst" stubs="none"
#[kani::proof]
#[kani::unwind(20)]
fn c03_size_gate_raw_src() {
    size_gate(1)
}

// verif: prop=C03 tier=thorough cap=3000 mem=24 bound="raw packets: payload length 0..2^17, IPv4 addresses, standard path 1x2 hop fields with any pointer values" fns="ScionPacket::<Vec<u8>>::wire_valid,StandardPath::{wire_valid,required_size}" stubs="none"
#[kani::proof]
#[kani::unwind(20)]
fn c03_size_gate_std() {
    size_gate(2)
}

/// Same gate for UDP packets: the UDP length field is 16 bits as well.
fn size_gate_udp() {
    let n: usize = kani::any();
    kani::assume(n <= 1 << 17);
    let header = any_header(0, 0, 0, ProtocolNumber::Udp);
    let pkt = ScionUdpPacket { header, payload: UdpDatagram { src_port: kani::any(), dst_port: kani::any(), payload: vec![0u8; n] } };
    assert!(pkt.required_size() == 36 + 8 + n);
    if pkt.wire_valid().is_ok() {
        kani::cover!(n == 65535 - 8, "largest UDP payload accepted");
        assert!(8 + n <= 65535, "UDP datagram that does not fit the 16-bit length fields accepted");
    }
    std::mem::forget(pkt);
}

// verif: prop=C03 tier=quick cap=600 bound="UDP packets: payload length 0..2^17, v4 addresses, empty path" fns="ScionPacket::<UdpDatagram>::{wire_valid,required_size}" stubs="none"
#[kani::proof]
#[kani::unwind(20)]
fn c03_size_gate_udp() {
    size_gate_udp()
}

// ------------------------------------------------------------------ independent reader

fn be16(b: &[u8], o: usize) -> u16 {
    u16::from_be_bytes([b[o], b[o + 1]])
}
fn be48(b: &[u8], o: usize) -> u64 {
    ((be16(b, o) as u64) << 32) | ((be16(b, o + 2) as u64) << 16) | be16(b, o + 4) as u64
}

/// wire type nibble (DT/DL or ST/SL) per the SCION header specification
fn ref_type_nibble(h: &WireHostAddr) -> u8 {
    match h {
        WireHostAddr::V4(_) => 0b0000,
        WireHostAddr::V6(_) => 0b0011,
        WireHostAddr::Svc(_) => 0b0100,
        WireHostAddr::Unknown { id, bytes } => (*id << 2) | ((bytes.len() / 4 - 1) as u8),
    }
}

fn host_byte(h: &WireHostAddr, i: usize) -> u8 {
    match h {
        WireHostAddr::V4(a) => a.octets()[i],
        WireHostAddr::V6(a) => a.octets()[i],
        WireHostAddr::Svc(s) => {
            let v = s.0.to_be_bytes();
            if i < 2 { v[i] } else { 0 }
        }
        WireHostAddr::Unknown { bytes, .. } => bytes[i],
    }
}

/// Encode a raw packet of the given shape and read every field back twice: with a reader written
/// from the SCION header format (offsets and widths only) and with the crate's own views.
fn roundtrip(dk: u8, sk: u8, pk: u8, paylen: usize, check_views: bool) {
    let next: u8 = kani::any();
    let header = any_header(dk, sk, pk, ProtocolNumber::from(next));
    let pay: [u8; 8] = kani::any();
    let pkt = ScionRawPacket { header, payload: pay[..paylen].to_vec() };
    let j: usize = kani::any();
    let Ok(bytes) = pkt.try_encode_to_vec() else {
        // unknown address kinds colliding with known type ids, oversize pointers etc. may be refused
        kani::cover!(true, "model refused by the encoder");
        std::mem::forget(pkt);
        return;
    };
    kani::cover!(true, "model encoded");
    let h = &pkt.header;
    let dl = host_len(dk);
    let sl = host_len(sk);
    let hdr = 28 + dl + sl + path_len(pk);
    // --- truthful sizes
    assert!(bytes.len() == pkt.required_size() && bytes.len() == hdr + paylen, "written size differs from the announced size");
    assert!(bytes[5] as usize * 4 == hdr, "header length field wrong");
    assert!(be16(&bytes, 6) as usize == paylen, "payload length field wrong");
    // --- common header, reference reader
    assert!(bytes[0] >> 4 == 0, "version not 0");
    let tc = (bytes[0] << 4) | (bytes[1] >> 4);
    let flow = (((bytes[1] & 0xf) as u32) << 16) | be16(&bytes, 2) as u32;
    assert!(tc == h.common.traffic_class && flow == h.common.flow_id, "traffic class / flow id differ");
    assert!(bytes[4] == next, "next header differs");
    assert!(bytes[8] == match pk { 0 => 0, 1 => 2, _ => 1 }, "path type differs");
    assert!(bytes[9] == (ref_type_nibble(&h.address.dst_host_addr) << 4) | ref_type_nibble(&h.address.src_host_addr), "address type/length nibbles differ");
    assert!(bytes[10] == 0 && bytes[11] == 0, "reserved bits not zero");
    // --- address header
    assert!(be16(&bytes, 12) == h.address.dst_ia.isd().0 && be48(&bytes, 14) == h.address.dst_ia.asn().0, "destination ISD-AS differs");
    assert!(be16(&bytes, 20) == h.address.src_ia.isd().0 && be48(&bytes, 22) == h.address.src_ia.asn().0, "source ISD-AS differs");
    if j < dl {
        assert!(bytes[28 + j] == host_byte(&h.address.dst_host_addr, j), "destination host differs");
    }
    if j < sl {
        assert!(bytes[28 + dl + j] == host_byte(&h.address.src_host_addr, j), "source host differs");
    }
    // --- payload
    if j < paylen {
        assert!(bytes[hdr + j] == pay[j], "payload byte differs");
    }
    // --- path, reference reader
    let po = 28 + dl + sl;
    match &h.path {
        DpPath::Empty => {}
        DpPath::OneHop(p) => {
            assert!(bytes[po] == p.info.flags.bits() && be16(&bytes, po + 2) == p.info.segment_id, "one-hop info field differs");
            assert!(u32::from_be_bytes([bytes[po + 4], bytes[po + 5], bytes[po + 6], bytes[po + 7]]) == p.info.timestamp);
            let k: usize = kani::any();
            kani::assume(k < 2);
            let o = po + 8 + 12 * k;
            assert!(bytes[o] == p.hops[k].flags.bits() && bytes[o + 1] == p.hops[k].expiration_units, "one-hop hop field differs");
            assert!(be16(&bytes, o + 2) == p.hops[k].cons_ingress && be16(&bytes, o + 4) == p.hops[k].cons_egress);
            assert!(bytes[o + 6] == p.hops[k].mac.0[0] && bytes[o + 11] == p.hops[k].mac.0[5]);
        }
        DpPath::Standard(p) => {
            let meta = u32::from_be_bytes([bytes[po], bytes[po + 1], bytes[po + 2], bytes[po + 3]]);
            assert!((meta >> 30) as u8 == p.current_info_field && ((meta >> 24) & 0x3f) as u8 == p.current_hop_field, "path pointers differ");
            assert!((meta >> 12) & 0x3f == 2 && (meta >> 6) & 0x3f == 0 && meta & 0x3f == 0, "segment lengths differ");
            assert!((meta >> 18) & 0x3f == 0, "reserved path meta bits not zero");
            let inf = &p.segments[0].info_field;
            assert!(bytes[po + 4] == inf.flags.bits() && be16(&bytes, po + 6) == inf.segment_id, "info field differs");
            let k: usize = kani::any();
            kani::assume(k < 2);
            let o = po + 12 + 12 * k;
            let hf = &p.segments[0].hop_fields[k];
            assert!(bytes[o] == hf.flags.bits() && bytes[o + 1] == hf.expiration_units, "hop field differs");
            assert!(be16(&bytes, o + 2) == hf.cons_ingress && be16(&bytes, o + 4) == hf.cons_egress);
            assert!(bytes[o + 6] == hf.mac.0[0] && bytes[o + 11] == hf.mac.0[5]);
        }
        DpPath::Unsupported { .. } => {}
    }
    if !check_views {
        std::mem::forget(pkt);
        std::mem::forget(bytes);
        return;
    }
    // --- the crate's own decoder (views) reads the same packet back
    match ScionRawPacketView::try_from_slice(&bytes) {
        Err(_) => {
            assert!(false, "decoder rejects what the encoder wrote");
        }
        Ok((v, rest)) => {
            assert!(rest.is_empty(), "decoder leaves trailing bytes of the encoder's output");
            let hv = v.header();
            assert!(hv.traffic_class() == h.common.traffic_class && hv.flow_id() == h.common.flow_id);
            assert!(hv.next_header() == h.common.next_header);
            assert!(hv.dst_ia() == h.address.dst_ia && hv.src_ia() == h.address.src_ia);
            assert!(hv.payload_len() as usize == paylen && hv.header_len() as usize == hdr);
            assert!(v.payload().len() == paylen);
            match hv.dst_host_addr() {
                Ok(a) => {
                    assert!(a == h.address.dst_host_addr, "decoded destination host differs");
                }
                Err(_) => {
                    assert!(false, "destination host unreadable");
                }
            };
            match hv.src_host_addr() {
                Ok(a) => {
                    assert!(a == h.address.src_host_addr, "decoded source host differs");
                }
                Err(_) => {
                    assert!(false, "source host unreadable");
                }
            };
            match (hv.path(), &h.path) {
                (ScionDpPathViewRef::Empty, DpPath::Empty) => {}
                (ScionDpPathViewRef::OneHop(pv), DpPath::OneHop(p)) => {
                    assert!(pv.info_field().segment_id() == p.info.segment_id && pv.info_field().timestamp() == p.info.timestamp);
                    assert!(pv.hop_fields()[1].cons_ingress() == p.hops[1].cons_ingress && pv.hop_fields()[0].mac() == p.hops[0].mac);
                }
                (ScionDpPathViewRef::Standard(pv), DpPath::Standard(p)) => {
                    assert!(pv.seg0_len() == 2 && pv.seg1_len() == 0 && pv.seg2_len() == 0);
                    assert!(pv.curr_hop_field_idx() == p.current_hop_field && pv.curr_info_field_idx() == p.current_info_field);
                    let hf = pv.hop_field(1).unwrap();
                    let m = &p.segments[0].hop_fields[1];
                    assert!(hf.cons_ingress() == m.cons_ingress && hf.cons_egress() == m.cons_egress && hf.exp_time() == m.expiration_units && hf.mac() == m.mac && hf.flags() == m.flags);
                    let iv = pv.info_field(0).unwrap();
                    assert!(iv.flags() == p.segments[0].info_field.flags && iv.timestamp() == p.segments[0].info_field.timestamp);
                }
                _ => {
                    assert!(false, "decoded path kind differs");
                }
            }
        }
    }
    std::mem::forget(pkt);
    std::mem::forget(bytes);
}

use crate::dataplane_path::view::ScionDpPathViewRef;
use crate::packet::view::ScionRawPacketView;

// verif: prop=C03 tier=quick cap=1200 bound="raw packet, shape v4/v4/empty path, payload 4 B; all field values; independent reader + the crate's views" fns="ScionPacket::<Vec<u8>>::try_encode_to_vec,ScionPacketHeader::encode_unchecked,CommonHeader/AddressHeader::encode_unchecked,ScionRawPacketView+ScionHeaderView accessors" stubs="none"
#[kani::proof]
#[kani::unwind(20)]
fn c03_roundtrip_v4_v4_empty() {
    roundtrip(0, 0, 0, 4, true)
}

// verif: prop=C03 tier=quick cap=1200 bound="raw packet, shape v6/service/one-hop, payload 0 B; independent reader" fns="try_encode_to_vec,OneHopPath::encode_unchecked,WireHostAddr::encode_unchecked" stubs="none"
#[kani::proof]
#[kani::unwind(20)]
fn c03_roundtrip_v6_svc_onehop() {
    roundtrip(1, 2, 1, 0, false)
}

// verif: prop=C03 tier=quick cap=1200 bound="raw packet, shape unknown-12-byte/v6/empty, payload 8 B; independent reader" fns="try_encode_to_vec,WireHostAddr::Unknown encode" stubs="none"
#[kani::proof]
#[kani::unwind(20)]
fn c03_roundtrip_u12_v6_empty() {
    roundtrip(5, 1, 0, 8, false)
}

// verif: prop=C03 tier=off cap=3400 mem=30 bound="raw packet, shape v4/v4/standard(1x2 hops), payload 4 B; independent reader + views" fns="try_encode_to_vec,StandardPath::encode_unchecked,views" stubs="none"
#[kani::proof]
#[kani::unwind(20)]
fn c03_roundtrip_v4_v4_std() {
    roundtrip(0, 0, 2, 4, true)
}

// verif: prop=C03 tier=off cap=3400 mem=30 bound="raw packet, shape service/unknown-16-byte/standard, payload 1 B; independent reader + views" fns="try_encode_to_vec,views" stubs="none"
#[kani::proof]
#[kani::unwind(20)]
fn c03_roundtrip_svc_u16_std() {
    roundtrip(2, 6, 2, 1, true)
}

// verif: prop=C03 tier=off cap=3400 mem=30 bound="raw packet, shape unknown-4/unknown-8/one-hop, payload 3 B; independent reader + views" fns="try_encode_to_vec,views" stubs="none"
#[kani::proof]
#[kani::unwind(20)]
fn c03_roundtrip_u4_u8_onehop() {
    roundtrip(3, 4, 1, 3, true)
}

// ------------------------------------------------------------------ checksum

/// RFC 1071 over a byte string starting at an even offset of the checksummed data
fn rfc1071(data: &[u8], len: usize) -> u32 {
    let mut sum: u32 = 0;
    let mut i = 0;
    while i < len {
        let hi = data[i] as u32;
        let lo = if i + 1 < len { data[i + 1] as u32 } else { 0 };
        sum += (hi << 8) | lo;
        i += 2;
    }
    sum
}
fn fold(mut s: u32) -> u16 {
    s = (s >> 16) + (s & 0xffff);
    s = (s >> 16) + (s & 0xffff);
    s as u16
}

fn checksum_add_slice<const N: usize>() {
    let len: usize = kani::any();
    kani::assume(len <= N);
    let odd: bool = kani::any();
    // two-byte aligned backing store; `odd` shifts the slice to an odd address
    let store: [u16; 20] = kani::any();
    let bytes: &[u8] = unsafe { std::slice::from_raw_parts(store.as_ptr() as *const u8, 40) };
    let start = if odd { 1 } else { 0 };
    let data = &bytes[start..start + len];
    let mut d = ChecksumDigest::new();
    d.add_slice(data);
    let want = !fold(rfc1071(data, len));
    kani::cover!(odd && len == N, "odd address, longest slice");
    assert!(d.checksum() == want, "add_slice differs from the RFC 1071 ones-complement sum");
}

// verif: prop=C03 tier=quick cap=600 bound="all byte slices of length <= 9 at even and odd addresses" fns="ChecksumDigest::{add_slice,fold_checksum,checksum}" stubs="none"
#[kani::proof]
#[kani::unwind(12)]
fn c03_checksum_slice_n9() {
    checksum_add_slice::<9>()
}

// verif: prop=C03 tier=off cap=3000 mem=24 bound="all byte slices of length <= 33 at even and odd addresses" fns="ChecksumDigest::{add_slice,fold_checksum,checksum}" stubs="none"
#[kani::proof]
#[kani::unwind(36)]
fn c03_checksum_slice_n33() {
    checksum_add_slice::<33>()
}

/// UDP packet: UDP length truthful, checksum verifies over the SCION pseudo-header
/// (dst IA, src IA, dst host, src host, upper-layer length, zero padding + next header).
fn udp_checksum(dk: u8, sk: u8, paylen: usize) {
    let header = any_header(dk, sk, 0, ProtocolNumber::Udp);
    let pay: [u8; 8] = kani::any();
    let pkt = ScionUdpPacket { header, payload: UdpDatagram { src_port: kani::any(), dst_port: kani::any(), payload: pay[..paylen].to_vec() } };
    let Ok(bytes) = pkt.try_encode_to_vec() else {
        std::mem::forget(pkt);
        return;
    };
    kani::cover!(true, "UDP packet encoded");
    let dl = host_len(dk);
    let sl = host_len(sk);
    let hdr = 28 + dl + sl;
    assert!(bytes.len() == hdr + 8 + paylen && bytes.len() == pkt.required_size());
    assert!(be16(&bytes, 6) as usize == 8 + paylen, "payload length field wrong");
    assert!(be16(&bytes, hdr) == pkt.payload.src_port && be16(&bytes, hdr + 2) == pkt.payload.dst_port);
    assert!(be16(&bytes, hdr + 4) as usize == 8 + paylen, "UDP length field wrong");
    // ones-complement sum of pseudo header + UDP datagram (checksum field included) must be 0xffff
    let mut sum: u32 = 0;
    sum += rfc1071(&bytes[12..], 16 + dl + sl);
    sum += (8 + paylen) as u32;
    sum += 17;
    sum += rfc1071(&bytes[hdr..], 8 + paylen);
    assert!(fold(sum) == 0xffff, "UDP checksum does not verify over the SCION pseudo-header");
    std::mem::forget(pkt);
    std::mem::forget(bytes);
}

// verif: prop=C03 tier=quick cap=1200 bound="UDP packet v4/v4, empty path, payload 1 B (odd length), all ports/addresses/bytes" fns="UdpDatagram::encode_unchecked,ChecksumDigest::{with_pseudoheader,add_slice,checksum}" stubs="none"
#[kani::proof]
#[kani::unwind(24)]
fn c03_udp_checksum_v4_p1() {
    udp_checksum(0, 0, 1)
}

// verif: prop=C03 tier=thorough cap=3000 bound="UDP packet v4/v4, empty path, payload 5 B (odd), all ports/addresses/bytes" fns="UdpDatagram::encode_unchecked,ChecksumDigest::with_pseudoheader" stubs="none"
#[kani::proof]
#[kani::unwind(24)]
fn c03_udp_checksum_v4_p5() {
    udp_checksum(0, 0, 5)
}

// verif: prop=C03 tier=off cap=3000 mem=24 bound="UDP packet v6/service, empty path, payload 8 B" fns="UdpDatagram::encode_unchecked,ChecksumDigest::with_pseudoheader" stubs="none"
#[kani::proof]
#[kani::unwind(24)]
fn c03_udp_checksum_v6_svc_p8() {
    udp_checksum(1, 2, 8)
}

/// Header-length gate: a path of unsupported type with m bytes of data makes the header
/// 36 + m bytes long (IPv4 addresses). Whatever the encoder accepts carries a truthful HdrLen
/// (4-byte units, 8 bits: at most 1020 bytes) and is as long as announced.
fn header_len_gate() {
    use crate::dataplane_path::types::PathType;
    let m: usize = kani::any();
    kani::assume(m <= 1100);
    let mut header = any_header(0, 0, 0, ProtocolNumber::Other(kani::any()));
    header.common.flow_id &= 0xf_ffff; // representable flow ids only: this harness is about sizes
    header.path = DpPath::Unsupported { path_type: PathType::Other(200), data: vec![0u8; m] };
    let pkt = ScionRawPacket { header, payload: Vec::new() };
    assert!(pkt.required_size() == 36 + m);
    match pkt.try_encode_to_vec() {
        Ok(bytes) => {
            kani::cover!(m == 984, "largest representable header accepted");
            assert!(36 + m <= 1020 && m % 4 == 0, "header that does not fit the 8-bit header length field accepted");
            assert!(bytes.len() == 36 + m, "written size differs from the announced size");
            assert!(bytes[5] as usize * 4 == 36 + m, "header length field wrong");
            assert!(bytes[8] == 200, "path type differs");
            std::mem::forget(bytes);
        }
        Err(_) => {
            kani::cover!(m == 988, "first unrepresentable header rejected");
            assert!(36 + m > 1020 || m % 4 != 0, "representable header rejected");
        }
    }
    std::mem::forget(pkt);
}

// verif: prop=C03 tier=quick cap=900 bound="raw packet, IPv4 addresses, unsupported path type with 0..1100 bytes of path data (header 36..1136 bytes), empty payload" fns="ScionPacketHeader::{wire_valid,size_units,encode_unchecked},DpPath::{wire_valid,required_size},ScionHeaderLayout::MAX_SIZE_BYTES" stubs="none"
#[kani::proof]
#[kani::unwind(20)]
fn c03_header_len_gate() {
    header_len_gate()
}
