//! verif-attach: file=crates/libs/sciparse/src/scion/address/socket_addr.rs crate=sciparse mod=verif_c15
//!
//! C15 — address and identifier text forms: the bracket-and-port splitter is total and exact on
//! all short ASCII strings; numeric identifier forms survive display -> parse; leaf parsers are
//! total.
#![allow(dead_code, unused_imports, clippy::all)]
use std::fmt::Write as _;

use super::*;
use crate::identifier::{asn::Asn, isd::Isd, isd_asn::IsdAsn};

/// Leaf that accepts everything and records which substring the splitter handed to it.
struct Rec {
    start: usize,
    len: usize,
}
impl FromStr for Rec {
    type Err = ();
    fn from_str(s: &str) -> Result<Self, ()> {
        Ok(Rec { start: s.as_ptr() as usize, len: s.len() })
    }
}

fn ascii_str<const N: usize>(len: usize, b: &[u8; N]) -> &str {
    let mut i = 0;
    while i < N {
        kani::assume(b[i] < 128);
        i += 1;
    }
    unsafe { std::str::from_utf8_unchecked(&b[..len]) }
}

fn splitter<const N: usize>() {
    let len: usize = kani::any();
    kani::assume(len <= N);
    let b: [u8; N] = kani::any();
    let s = ascii_str(len, &b);
    if let Some((rec, _port)) = parse_socket_addr::<Rec>(s) {
        kani::cover!(true, "accept reachable");
        assert!(len >= 3, "accepted a string too short for '[' ']' ':'");
        assert!(b[0] == b'[', "accepted without opening bracket");
        assert!(rec.start == s.as_ptr() as usize + 1, "leaf did not get the text after '['");
        assert!(1 + rec.len < len && b[1 + rec.len] == b']', "accepted without closing bracket before the port");
        assert!(2 + rec.len < len && b[2 + rec.len] == b':', "closing bracket not directly followed by ':'");
        // the port is the text after that colon: nothing but an optional '+' and digits
        let mut i = 3 + rec.len;
        assert!(i < len, "accepted an empty port");
        while i < N {
            if i < len {
                assert!(b[i].is_ascii_digit() || (i == 3 + rec.len && b[i] == b'+'), "garbage in port accepted");
            }
            i += 1;
        }
    }
}

// verif: prop=C15 tier=quick cap=900 bound="all ASCII strings of length <= 6 through parse_socket_addr with a recording leaf parser" fns="parse_socket_addr::<Rec>,str::rsplit_once,u16::from_str" stubs="leaf address parser replaced by a recorder (generic instantiation parse_socket_addr::<Rec>)"
#[kani::proof]
#[kani::unwind(9)]
fn c15_splitter_n6() {
    splitter::<6>()
}

// verif: prop=C15 tier=thorough cap=3000 mem=24 bound="all ASCII strings of length <= 9 through parse_socket_addr with a recording leaf parser" fns="parse_socket_addr::<Rec>,str::rsplit_once,u16::from_str" stubs="leaf address parser replaced by a recorder"
#[kani::proof]
#[kani::unwind(12)]
fn c15_splitter_n9() {
    splitter::<9>()
}

/// fmt sink without allocation
struct Sink {
    b: [u8; 24],
    n: usize,
}
impl std::fmt::Write for Sink {
    fn write_str(&mut self, s: &str) -> std::fmt::Result {
        let bytes = s.as_bytes();
        let mut i = 0;
        while i < bytes.len() {
            if self.n >= 24 {
                return Err(std::fmt::Error);
            }
            self.b[self.n] = bytes[i];
            self.n += 1;
            i += 1;
        }
        Ok(())
    }
}
impl Sink {
    fn new() -> Self {
        Sink { b: [0; 24], n: 0 }
    }
    fn as_str(&self) -> &str {
        unsafe { std::str::from_utf8_unchecked(&self.b[..self.n]) }
    }
}

// verif: prop=C15 tier=quick cap=600 bound="every ISD value (u16)" fns="Isd::fmt (Display),Isd::from_str" stubs="none"
#[kani::proof]
#[kani::unwind(8)]
fn c15_isd_display_parse() {
    let v: u16 = kani::any();
    let isd = Isd(v);
    let mut s = Sink::new();
    let r = write!(s, "{}", isd);
    assert!(r.is_ok());
    match Isd::from_str(s.as_str()) {
        Ok(back) => {

            assert!(back == isd, "ISD changed by display -> parse");

        }
        Err(_) => {
            assert!(false, "displayed ISD rejected by the parser");
        }
    }
}

/// colon-hex AS numbers: one 16-bit part symbolic, the other two fixed (the full 48-bit range in
/// one query runs CBMC out of memory at 10 GB: three symbolic hex formatters plus three parsers)
fn asn_hex_part(part: u32, others: [u16; 3]) {
    let x: u16 = kani::any();
    let mut parts = others;
    parts[part as usize] = x;
    let v = ((parts[0] as u64) << 32) | ((parts[1] as u64) << 16) | parts[2] as u64;
    kani::assume(v > u32::MAX as u64);
    let asn = Asn(v);
    let mut s = Sink::new();
    let r = write!(s, "{}", asn);
    assert!(r.is_ok());
    match Asn::from_str(s.as_str()) {
        Ok(back) => {
            assert!(back == asn, "AS number changed by display -> parse");
        }
        Err(_) => {
            assert!(false, "displayed AS number rejected by the parser");
        }
    }
}

// verif: prop=C15 tier=off cap=3400 mem=30 bound="colon-hex AS numbers x:fcd1:1 for every 16-bit x >= 1" fns="Asn::fmt (Display),Asn::from_str" stubs="none"
#[kani::proof]
#[kani::unwind(16)]
fn c15_asn_hex_part0() {
    asn_hex_part(0, [0, 0xfcd1, 1])
}

// verif: prop=C15 tier=off cap=3400 mem=30 bound="colon-hex AS numbers ff00:x:ab for every 16-bit x" fns="Asn::fmt (Display),Asn::from_str" stubs="none"
#[kani::proof]
#[kani::unwind(16)]
fn c15_asn_hex_part1() {
    asn_hex_part(1, [0xff00, 0, 0xab])
}

// verif: prop=C15 tier=thorough cap=3400 mem=30 bound="colon-hex AS numbers 1:0:x for every 16-bit x" fns="Asn::fmt (Display),Asn::from_str" stubs="none"
#[kani::proof]
#[kani::unwind(16)]
fn c15_asn_hex_part2() {
    asn_hex_part(2, [1, 0, 0])
}

/// Decimal AS numbers from the parser's side (formatting a symbolic integer is what exhausts CBMC
/// in c15_asn_dec_display_parse): every string of exactly 10 decimal digits is accepted iff its
/// value is <= 2^32-1 - the largest value Display prints in decimal - and then gives that value.
fn asn_dec10(fixed: usize, prefix: [u8; 10]) {
    let mut b: [u8; 10] = kani::any();
    let mut v: u64 = 0;
    let mut i = 0;
    while i < 10 {
        if i < fixed {
            b[i] = prefix[i];
        }
        kani::assume(b[i] >= b'0' && b[i] <= b'9');
        v = v * 10 + (b[i] - b'0') as u64;
        i += 1;
    }
    let s = ascii_str(10, &b);
    let got = Asn::from_str(s);
    kani::cover!(got.is_ok() && v == 4294967295, "2^32-1 accepted");
    kani::cover!(got.is_err(), "10-digit number beyond the decimal range refused");
    match got {
        Ok(a) => {
            assert!(v <= u32::MAX as u64, "decimal AS number above 2^32-1 accepted");
            assert!(a.0 == v, "decimal AS number parsed to another value");
        }
        Err(_) => {
            assert!(v > u32::MAX as u64, "decimal AS number that Display produces is rejected by the parser");
        }
    }
}

// verif: prop=C15 tier=quick cap=1800 mem=12 bound="all decimal strings 429496dddd (4294960000 .. 4294969999, around 2^32-1)" fns="Asn::from_str,u64::from_str" stubs="none"
#[kani::proof]
#[kani::unwind(13)]
fn c15_asn_dec10_boundary() {
    asn_dec10(6, *b"4294960000")
}

// verif: prop=C15 tier=thorough cap=2400 mem=12 bound="all strings of exactly 10 decimal digits" fns="Asn::from_str,u64::from_str" stubs="none"
#[kani::proof]
#[kani::unwind(13)]
fn c15_asn_dec10_all() {
    asn_dec10(0, *b"0000000000")
}

// verif: prop=C15 tier=off cap=3000 mem=30 bound="every AS number in the BGP range (0 .. 2^32-1): decimal form" fns="Asn::fmt (Display),Asn::from_str" stubs="none"
#[kani::proof]
#[kani::unwind(22)]
fn c15_asn_dec_display_parse() {
    let v: u32 = kani::any();
    let asn = Asn(v as u64);
    let mut s = Sink::new();
    let r = write!(s, "{}", asn);
    assert!(r.is_ok());
    match Asn::from_str(s.as_str()) {
        Ok(back) => {

            assert!(back == asn, "AS number changed by display -> parse");

        }
        Err(_) => {
            assert!(false, "displayed AS number rejected by the parser");
        }
    }
}

fn asn_total<const N: usize>() {
    let len: usize = kani::any();
    kani::assume(len <= N);
    let b: [u8; N] = kani::any();
    let s = ascii_str(len, &b);
    if let Ok(a) = Asn::from_str(s) {
        kani::cover!(len == N, "longest string accepted");
        assert!(a.0 <= Asn::MAX.0, "parsed AS number out of range");
        assert!(len > 0);
        let mut i = 0;
        while i < N {
            if i < len {
                assert!(
                    b[i].is_ascii_hexdigit() || b[i] == b':' || (b[i] == b'+'),
                    "AS parser accepted a string with foreign characters"
                );
            }
            i += 1;
        }
    }
}

// verif: prop=C15 tier=quick cap=900 bound="Asn::from_str on all ASCII strings of length <= 5" fns="Asn::from_str,u64::from_str,u16::from_str_radix,str::splitn" stubs="none"
#[kani::proof]
#[kani::unwind(8)]
fn c15_asn_total_n5() {
    asn_total::<5>()
}

// verif: prop=C15 tier=thorough cap=3000 mem=24 bound="Asn::from_str on all ASCII strings of length <= 7" fns="Asn::from_str,u64::from_str,u16::from_str_radix,str::splitn" stubs="none"
#[kani::proof]
#[kani::unwind(10)]
fn c15_asn_total_n7() {
    asn_total::<7>()
}
