//! verif-attach: file=crates/libs/sciparse/src/proto/dataplane_path/standard/view.rs crate=sciparse mod=verif_c12
//!
//! C12 — views and models agree; a failed operation leaves its operand untouched.
#![allow(dead_code, unused_imports, clippy::all)]
use super::*;
use crate::core::encode::WireEncode;
use crate::dataplane_path::standard::model::{HopField, InfoField, Segment, StandardPath};
use crate::dataplane_path::standard::types::HopFieldMac;

/// 4 + 3*8 + H*12
const fn path_bytes(h: usize) -> usize {
    4 + 24 + 12 * h
}

/// All byte strings of N bytes that the view constructor accepts (every segment-length triple
/// fitting N bytes, every pointer value, every flag and reserved bit): a failing reversal leaves
/// every byte as it was.
fn reverse_atomic<const N: usize>() {
    let j: usize = kani::any();
    let mut buf: [u8; N] = kani::any();
    let orig = buf;
    let Ok((p, _rest)) = StandardPathView::try_from_mut_slice(&mut buf[..]) else {
        return;
    };
    let n = p.as_slice().len();
    kani::assume(j < n);
    let r = p.try_reverse();
    if r.is_err() {
        kani::cover!(p.hop_field_count() > 0, "reversal of a non-empty path fails");
        assert!(buf[j] == orig[j], "failed reversal changed the path bytes");
    }
}

// verif: prop=C12 tier=quick cap=900 bound="all 100-byte inputs accepted by StandardPathView::try_from_mut_slice (<= 3 segments, <= 6 hop fields, all pointers/flags/reserved bits)" fns="StandardPathView::{try_from_mut_slice,try_reverse,info_fields_mut,hop_fields_mut}" stubs="none"
#[kani::proof]
#[kani::unwind(8)]
fn c12_reverse_atomic_h6() {
    reverse_atomic::<{ path_bytes(6) }>()
}

// verif: prop=C12 tier=thorough cap=3000 mem=24 bound="all 136-byte inputs accepted by the view constructor (<= 9 hop fields)" fns="StandardPathView::{try_from_mut_slice,try_reverse}" stubs="none"
#[kani::proof]
#[kani::unwind(11)]
fn c12_reverse_atomic_h9() {
    reverse_atomic::<{ path_bytes(9) }>()
}

/// Reversal is its own inverse, and keeps the logical position: hop pointer h -> total-1-h, info
/// pointer i -> count-1-i.
fn reverse_involution<const N: usize>() {
    let j: usize = kani::any();
    let mut buf: [u8; N] = kani::any();
    let orig = buf;
    let Ok((p, _rest)) = StandardPathView::try_from_mut_slice(&mut buf[..]) else {
        return;
    };
    let n = p.as_slice().len();
    kani::assume(j < n);
    let h0 = p.curr_hop_field_idx() as usize;
    let i0 = p.curr_info_field_idx() as usize;
    let hops = p.hop_field_count() as usize;
    // number of segments as the reversal sees them (a zero-length middle segment ends the list)
    let segs = if p.seg0_len() == 0 { 0 } else if p.seg1_len() == 0 { 1 } else if p.seg2_len() == 0 { 2 } else { 3 };
    if p.try_reverse().is_ok() {
        assert!(p.hop_field_count() as usize == hops, "reversal changed the number of hop fields");
        assert!(p.curr_hop_field_idx() as usize == hops - 1 - h0, "logical hop position not preserved");
        assert!(p.curr_info_field_idx() as usize == segs - 1 - i0, "logical segment position not preserved");
        kani::cover!(segs == 3, "three-segment path reversed");
        let r2 = p.try_reverse();
        assert!(r2.is_ok(), "reversed path cannot be reversed again");
        assert!(buf[j] == orig[j], "reverse(reverse(p)) != p");
    }
}

// verif: prop=C12 tier=quick cap=900 bound="all 100-byte inputs accepted by the view constructor (<= 6 hop fields)" fns="StandardPathView::try_reverse (twice)" stubs="none"
#[kani::proof]
#[kani::unwind(8)]
fn c12_reverse_involution_h6() {
    reverse_involution::<{ path_bytes(6) }>()
}

/// Byte-level reference for the queries both representations offer.
fn ref_seg_lens(b: &[u8]) -> [usize; 3] {
    let m = u32::from_be_bytes([b[0], b[1], b[2], b[3]]);
    [((m >> 12) & 0x3f) as usize, ((m >> 6) & 0x3f) as usize, (m & 0x3f) as usize]
}

fn view_queries<const N: usize>() {
    let k: usize = kani::any();
    let buf: [u8; N] = kani::any();
    let Ok((p, rest)) = StandardPathView::try_from_slice(&buf[..]) else {
        return;
    };
    let s = ref_seg_lens(&buf);
    let infos = (s[0] > 0) as usize + (s[1] > 0) as usize + (s[2] > 0) as usize;
    let hops = s[0] + s[1] + s[2];
    assert!(p.as_slice().len() + rest.len() == N);
    assert!(p.as_slice().len() == 4 + 8 * infos + 12 * hops, "view size differs from the SCION path layout");
    assert!(p.hop_field_count() as usize == hops && p.info_field_count() as usize == infos);
    assert!(p.curr_hop_field_idx() == buf[0] & 0x3f && p.curr_info_field_idx() == buf[0] >> 6);
    // segment index of hop k
    let want = if k < s[0] {
        Some((0usize, k == 0, k + 1 == s[0]))
    } else if k < s[0] + s[1] {
        Some((1, k == s[0], k + 1 == s[0] + s[1]))
    } else if k < hops {
        Some((2, k == s[0] + s[1], k + 1 == hops))
    } else {
        None
    };
    assert!(p.calculate_segment_index(k) == want, "calculate_segment_index differs from the reference");
    // hop field k and its accessors read the bytes the layout says
    match p.hop_field(k) {
        None => {
            assert!(k >= hops);
        }
        Some(hf) => {
            assert!(k < hops);
            let o = 4 + 8 * infos + 12 * k;
            assert!(hf.exp_time() == buf[o + 1]);
            assert!(hf.cons_ingress() == u16::from_be_bytes([buf[o + 2], buf[o + 3]]));
            assert!(hf.cons_egress() == u16::from_be_bytes([buf[o + 4], buf[o + 5]]));
            assert!(hf.mac().0[0] == buf[o + 6] && hf.mac().0[5] == buf[o + 11]);
            kani::cover!(k == 5, "last hop field of the bound read");
        }
    }
    match p.info_field(k) {
        None => {
            assert!(k >= infos);
        }
        Some(inf) => {
            let o = 4 + 8 * k;
            assert!(inf.segment_id() == u16::from_be_bytes([buf[o + 2], buf[o + 3]]));
            assert!(inf.timestamp() == u32::from_be_bytes([buf[o + 4], buf[o + 5], buf[o + 6], buf[o + 7]]));
        }
    }
}

// verif: prop=C12 tier=quick cap=900 bound="all 100-byte inputs; every hop/info index" fns="StandardPathView::{hop_field,info_field,calculate_segment_index,hop_field_count,info_field_count},HopFieldView/InfoFieldView accessors" stubs="none"
#[kani::proof]
#[kani::unwind(8)]
fn c12_view_queries_h6() {
    view_queries::<{ path_bytes(6) }>()
}

/// lifetime of a hop field in whole seconds: (ExpTime + 1) * 337.5 s, rounded down
fn ref_lifetime(exp: u8) -> u32 {
    ((exp as u32 + 1) * 675) / 2
}

/// All N-byte inputs the view constructor accepts: expiration() never panics and equals the SCION
/// rule computed from raw bytes - minimum over the (leading non-empty) segments of segment
/// timestamp + lifetime of the segment's smallest ExpTime, saturating at u32::MAX; 0 for the
/// empty path.
fn expiration_view<const N: usize>() {
    let mut buf: [u8; N] = kani::any();
    let orig = buf;
    let Ok((p, _rest)) = StandardPathView::try_from_mut_slice(&mut buf[..]) else {
        return;
    };
    let meta = u32::from_be_bytes([orig[0], orig[1], orig[2], orig[3]]);
    let s = [((meta >> 12) & 0x3f) as usize, ((meta >> 6) & 0x3f) as usize, (meta & 0x3f) as usize];
    let infos = (s[0] > 0) as usize + (s[1] > 0) as usize + (s[2] > 0) as usize;
    let mut want = u32::MAX;
    let mut seg = 0;
    let mut k = 0;
    let mut live = true;
    while seg < 3 {
        if s[seg] == 0 {
            live = false;
        }
        if live {
            let o = 4 + 8 * seg;
            let ts = u32::from_be_bytes([orig[o + 4], orig[o + 5], orig[o + 6], orig[o + 7]]);
            let mut e = 255u8;
            let mut i = 0;
            while i < s[seg] {
                let x = orig[4 + 8 * infos + 12 * (k + i) + 1];
                if x < e {
                    e = x;
                }
                i += 1;
            }
            k += s[seg];
            let seg_exp = ts.saturating_add(ref_lifetime(e));
            if seg_exp < want {
                want = seg_exp;
            }
        }
        seg += 1;
    }
    if s[0] == 0 {
        want = 0;
    }
    let got = p.expiration();
    kani::cover!(s[0] > 0 && s[1] > 0 && got == u32::MAX, "two segments, saturated expiry");
    kani::cover!(s[0] > 1 && got < 1000, "small expiry");
    assert!(got == want, "view expiration differs from the SCION expiry rule");
}

// verif: prop=C12,C06 tier=quick cap=900 bound="all 76-byte inputs accepted by the view constructor (<= 3 segments, <= 4 hop fields): every timestamp, every ExpTime" fns="StandardPathView::{expiration,segments},SegmentIterator::next,exp_time_to_duration" stubs="none"
#[kani::proof]
#[kani::unwind(6)]
fn c12_expiration_view_h4() {
    expiration_view::<{ path_bytes(4) }>()
}

// verif: prop=C12,C06 tier=thorough cap=2400 bound="all 100-byte inputs accepted by the view constructor (<= 3 segments, <= 6 hop fields)" fns="StandardPathView::{expiration,segments}" stubs="none"
#[kani::proof]
#[kani::unwind(8)]
fn c12_expiration_view_h6() {
    expiration_view::<{ path_bytes(6) }>()
}

/// Model of a fixed shape, all timestamps and ExpTime values symbolic: the model's expiration()
/// equals the same rule (and therefore the view's, by c12_expiration_view_*).
fn expiration_model(shape: [usize; 3]) {
    let mut m = StandardPath::new_empty();
    let mut want = u32::MAX;
    let mut sg = 0;
    while sg < 3 {
        if shape[sg] > 0 {
            let seg = any_segment(shape[sg]);
            let mut e = 255u8;
            let mut i = 0;
            while i < shape[sg] {
                if seg.hop_fields[i].expiration_units < e {
                    e = seg.hop_fields[i].expiration_units;
                }
                i += 1;
            }
            let x = seg.info_field.timestamp.saturating_add(ref_lifetime(e));
            if x < want {
                want = x;
            }
            m.segments.push(seg);
        }
        sg += 1;
    }
    let got = m.expiration();
    kani::cover!(got == u32::MAX, "saturated expiry");
    assert!(got == want, "model expiration differs from the SCION expiry rule");
    std::mem::forget(m);
}

// verif: prop=C12,C06 tier=quick cap=900 bound="model shapes (2,1,0) and (1,1,1): every timestamp, every ExpTime" fns="StandardPath::expiration,exp_time_to_duration" stubs="none"
#[kani::proof]
#[kani::unwind(14)]
fn c12_expiration_model_s210_s111() {
    if kani::any() {
        expiration_model([2, 1, 0])
    } else {
        expiration_model([1, 1, 1])
    }
}

fn any_hf() -> HopField {
    HopField {
        flags: HopFieldFlags::from_bits_retain(kani::any()),
        expiration_units: kani::any(),
        cons_ingress: kani::any(),
        cons_egress: kani::any(),
        mac: HopFieldMac(kani::any()),
    }
}

fn any_segment(hops: usize) -> Segment {
    let mut hf = crate::reexport::tinyvec::TinyVec::new();
    let mut i = 0;
    while i < hops {
        hf.push(any_hf());
        i += 1;
    }
    Segment {
        info_field: InfoField {
            flags: InfoFieldFlags::from_bits_retain(kani::any()),
            segment_id: kani::any(),
            timestamp: kani::any(),
        },
        hop_fields: hf,
    }
}

/// Model of a fixed shape, symbolic values and pointers: the two reversal implementations give
/// the same verdict and the same bytes; a failing model reversal leaves the model unchanged.
fn reverse_agree(shape: [usize; 3]) {
    let chf: u8 = kani::any();
    let cif: u8 = kani::any();
    kani::assume(chf < 64 && cif < 4);
    let j: usize = kani::any();
    let mut m = StandardPath::new_empty();
    let mut s = 0;
    while s < 3 {
        if shape[s] > 0 {
            m.segments.push(any_segment(shape[s]));
        }
        s += 1;
    }
    m.current_hop_field = chf;
    m.current_info_field = cif;
    let Ok(mut bytes) = m.try_encode_to_vec() else {
        std::mem::forget(m);
        return;
    };
    let before = bytes.clone();
    let n = bytes.len();
    kani::assume(j < n);
    let Ok((v, _)) = StandardPathView::try_from_mut_slice(&mut bytes[..]) else {
        assert!(false, "encoder output rejected by the view constructor");
        return;
    };
    let rv = v.try_reverse();
    let rm = m.try_reverse();
    kani::cover!(rv.is_ok(), "reversal succeeds");
    // (a model the encoder accepts has in-range pointers, so both reversals succeed; the failing
    // side is covered on raw bytes by c12_reverse_atomic_*)
    assert!(rv.is_ok() == rm.is_ok(), "view and model disagree on whether the path can be reversed");
    let Ok(enc) = m.try_encode_to_vec() else {
        assert!(false, "model no longer encodes after try_reverse");
        return;
    };
    assert!(enc.len() == n);
    if rm.is_ok() {
        assert!(enc[j] == bytes[j], "view reversal and model reversal give different paths");
    } else {
        assert!(enc[j] == before[j], "failed model reversal changed the model");
        assert!(bytes[j] == before[j], "failed view reversal changed the bytes");
    }
    std::mem::forget(m);
    std::mem::forget(enc);
    std::mem::forget(bytes);
    std::mem::forget(before);
}

// verif: prop=C12 tier=quick cap=1200 bound="model shape (2,0,0): all field values, all pointer values" fns="StandardPath::{try_reverse,try_encode_to_vec},StandardPathView::try_reverse" stubs="none"
#[kani::proof]
#[kani::unwind(14)]
fn c12_reverse_agree_s200() {
    reverse_agree([2, 0, 0])
}

// Multi-segment shapes: the model's reversal swaps whole Segment values (swap_nonoverlapping in
// 8-byte chunks: 40+ iterations), which forces unwind 48 on every loop of the harness - no verdict
// in 50-57 min each. tier=off: kept for the record, not part of any check.
// verif: prop=C12 tier=off cap=3400 mem=24 bound="model shape (1,1,0): all field values, all pointer values" fns="StandardPath::{try_reverse,try_encode_to_vec},StandardPathView::try_reverse" stubs="none"
#[kani::proof]
#[kani::unwind(48)]
fn c12_reverse_agree_s110() {
    reverse_agree([1, 1, 0])
}

// verif: prop=C12 tier=off cap=3000 mem=24 bound="model shape (2,1,2)" fns="StandardPath::{try_reverse,try_encode_to_vec},StandardPathView::try_reverse" stubs="none"
#[kani::proof]
#[kani::unwind(48)]
fn c12_reverse_agree_s212() {
    reverse_agree([2, 1, 2])
}

// verif: prop=C12 tier=off cap=3000 mem=24 bound="model shape (1,2,0)" fns="StandardPath::{try_reverse,try_encode_to_vec},StandardPathView::try_reverse" stubs="none"
#[kani::proof]
#[kani::unwind(48)]
fn c12_reverse_agree_s120() {
    reverse_agree([1, 2, 0])
}
