//! verif-attach: file=crates/libs/sciparse/src/proto/dataplane_path/standard/routing.rs crate=sciparse mod=verif_c11
//!
//! C11 — per-AS advance is a monotone state machine; failure is atomic.
#![allow(dead_code, unused_imports, clippy::all)]
use std::cell::Cell;

use super::*;
use crate::core::view::View;

const fn path_bytes(h: usize) -> usize {
    4 + 24 + 12 * h
}

#[derive(Debug)]
struct Verdict;
impl std::fmt::Display for Verdict {
    fn fmt(&self, _f: &mut std::fmt::Formatter<'_>) -> std::fmt::Result {
        Ok(())
    }
}

/// Adversarial validator: each of its (at most three) answers per advance is an arbitrary verdict.
struct AnyValidator {
    answers: [bool; 3],
    n: Cell<usize>,
    refused: Cell<bool>,
}
impl AnyValidator {
    fn next(&self) -> Result<(), Verdict> {
        let i = self.n.get();
        self.n.set(i + 1);
        if i < 3 && self.answers[i] {
            Ok(())
        } else {
            self.refused.set(true);
            Err(Verdict)
        }
    }
}
impl AdvanceValidator for &AnyValidator {
    type Error = Verdict;
    fn validate_hop(&self, _: usize, _: &HopFieldView, _: &InfoFieldView, _: bool, _: bool) -> Result<(), Verdict> {
        self.next()
    }
    fn validate_segment_change(&self, _: usize, _: &HopFieldView, _: &InfoFieldView, _: &HopFieldView, _: &InfoFieldView) -> Result<(), Verdict> {
        self.next()
    }
}

fn seg_lens(b: &[u8]) -> [usize; 3] {
    let m = u32::from_be_bytes([b[0], b[1], b[2], b[3]]);
    [((m >> 12) & 0x3f) as usize, ((m >> 6) & 0x3f) as usize, (m & 0x3f) as usize]
}

/// byte j lies in the meta word, the info field `inf` or the hop field `hf`
fn in_frame(b: &[u8], j: usize, inf: usize, hf: usize) -> bool {
    let s = seg_lens(b);
    let infos = (s[0] > 0) as usize + (s[1] > 0) as usize + (s[2] > 0) as usize;
    let io = 4 + 8 * inf;
    let ho = 4 + 8 * infos + 12 * hf;
    j < 4 || (io <= j && j < io + 8) || (ho <= j && j < ho + 12)
}

fn ingress_atomic<const N: usize>() {
    let j: usize = kani::any();
    let internal: bool = kani::any();
    let v = AnyValidator { answers: kani::any(), n: Cell::new(0), refused: Cell::new(false) };
    let mut buf: [u8; N] = kani::any();
    let orig = buf;
    let Ok((p, _)) = StandardPathView::try_from_mut_slice(&mut buf[..]) else { return };
    let n = p.as_slice().len();
    kani::assume(j < n);
    let hf0 = p.curr_hop_field_idx();
    let inf0 = p.curr_info_field_idx();
    let hops = p.hop_field_count();
    let r = p.advance_ingress_with_validator(&v, internal);
    let hf1 = p.curr_hop_field_idx();
    let inf1 = p.curr_info_field_idx();
    match r {
        Err(_) => {
            kani::cover!(hops > 0, "advance fails on a non-empty path");
            assert!(buf[j] == orig[j], "failed ingress advance changed the path bytes");
        }
        Ok(res) => {
            let (out, failed) = match res {
                IngressValidateResult::Ok(o) => (o, false),
                IngressValidateResult::ValidationFailed(o, _) => (o, true),
            };
            kani::cover!(failed, "validation failure reported");
            assert!(failed == v.refused.get(), "a verdict of the validator was dropped: refused hop reported as validated (or the reverse)");
            assert!(hf1 == hf0 || hf1 == hf0 + 1, "hop pointer moved backwards or jumped");
            assert!(inf1 == inf0 || inf1 == inf0 + 1, "segment pointer moved backwards or jumped");
            assert!((inf1 == inf0 + 1) == (hf1 == hf0 + 1), "segment pointer and hop pointer out of step at ingress");
            assert!(hf1 < hops, "hop pointer left the path");
            match out.action {
                IngressAdvanceAction::ForwardLocal => {
                    assert!(hf1 == hf0 && hf0 + 1 == hops, "local delivery before the last hop field");
                }
                IngressAdvanceAction::ContinueEgress { .. } => {
                    kani::cover!(inf1 != inf0, "segment change");
                    assert!(hf1 + 1 < hops || inf1 != inf0, "continue-egress on the final hop field");
                }
            }
            // frame: nothing but the meta word, the entered info field and hop field changes
            if !in_frame(&orig, j, inf0 as usize, hf0 as usize) {
                assert!(buf[j] == orig[j], "ingress advance wrote outside the current hop/info field");
            }
        }
    }
}

// verif: prop=C11 tier=quick cap=900 bound="all 100-byte inputs accepted by the view constructor (<= 6 hop fields), arbitrary validator verdicts, entry from inside or outside" fns="StandardPathView::advance_ingress_with_validator,calculate_segment_index,mac_beta_step" stubs="validator = arbitrary verdicts"
#[kani::proof]
#[kani::unwind(8)]
fn c11_ingress_atomic_h6() {
    ingress_atomic::<{ path_bytes(6) }>()
}

// verif: prop=C11 tier=thorough cap=3000 mem=24 bound="all 136-byte inputs accepted by the view constructor (<= 9 hop fields)" fns="StandardPathView::advance_ingress_with_validator" stubs="validator = arbitrary verdicts"
#[kani::proof]
#[kani::unwind(11)]
fn c11_ingress_atomic_h9() {
    ingress_atomic::<{ path_bytes(9) }>()
}

fn egress_atomic<const N: usize>() {
    let j: usize = kani::any();
    let v = AnyValidator { answers: kani::any(), n: Cell::new(0), refused: Cell::new(false) };
    let mut buf: [u8; N] = kani::any();
    let orig = buf;
    let Ok((p, _)) = StandardPathView::try_from_mut_slice(&mut buf[..]) else { return };
    let n = p.as_slice().len();
    kani::assume(j < n);
    let hf0 = p.curr_hop_field_idx();
    let inf0 = p.curr_info_field_idx();
    let hops = p.hop_field_count();
    let r = p.advance_egress_with_validator(&v);
    let hf1 = p.curr_hop_field_idx();
    let inf1 = p.curr_info_field_idx();
    match r {
        Err(_) => {
            kani::cover!(hops > 0, "advance fails on a non-empty path");
            assert!(buf[j] == orig[j], "failed egress advance changed the path bytes");
        }
        Ok(res) => {
            kani::cover!(true, "egress advance succeeds");
            let failed = matches!(res, EgressValidateResult::ValidationFailed(..));
            assert!(failed == v.refused.get(), "a verdict of the validator was dropped at egress");
            assert!(hf1 == hf0 + 1 && inf1 == inf0, "egress advance must move the hop pointer by exactly one");
            assert!(hf1 < hops, "hop pointer left the path");
            if !in_frame(&orig, j, inf0 as usize, hf0 as usize) {
                assert!(buf[j] == orig[j], "egress advance wrote outside the current hop/info field");
            }
        }
    }
}

// verif: prop=C11 tier=quick cap=900 bound="all 100-byte inputs accepted by the view constructor (<= 6 hop fields), arbitrary validator verdicts" fns="StandardPathView::advance_egress_with_validator" stubs="validator = arbitrary verdicts"
#[kani::proof]
#[kani::unwind(8)]
fn c11_egress_atomic_h6() {
    egress_atomic::<{ path_bytes(6) }>()
}

/// One AS step = ingress, then egress when ingress says so. Either it fails, or it delivers at
/// the last hop field, or the hop pointer is strictly larger afterwards: at most #hop-fields steps.
fn as_step<const N: usize>() {
    let internal: bool = kani::any();
    let mut buf: [u8; N] = kani::any();
    let Ok((p, _)) = StandardPathView::try_from_mut_slice(&mut buf[..]) else { return };
    let hf0 = p.curr_hop_field_idx();
    let hops = p.hop_field_count();
    let Ok(out) = p.advance_ingress(internal) else { return };
    match out.action {
        IngressAdvanceAction::ForwardLocal => {
            assert!(hf0 + 1 == hops, "local delivery before the last hop field");
        }
        IngressAdvanceAction::ContinueEgress { egress_if } => {
            let Ok(e) = p.advance_egress() else { return };
            kani::cover!(true, "full AS step");
            assert!(p.curr_hop_field_idx() > hf0, "AS step did not advance the hop pointer");
            assert!(e.egress_interface == egress_if, "ingress and egress disagree on the egress interface");
        }
    }
}

// verif: prop=C11 tier=quick cap=900 bound="all 100-byte inputs (<= 6 hop fields); ingress then egress without validator" fns="StandardPathView::{advance_ingress,advance_egress}" stubs="none"
#[kani::proof]
#[kani::unwind(8)]
fn c11_as_step_h6() {
    as_step::<{ path_bytes(6) }>()
}
