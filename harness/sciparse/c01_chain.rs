//! verif-attach: file=crates/libs/sciparse/src/scion/path/combinator/graph.rs crate=sciparse mod=verif_c01
//!
//! C01 (mechanism level) / C11 (authentic chains verify in both directions).
//! The real beacon extension (`add_unsigned_entry` -> `AsEntry::update_macs`) builds a segment of
//! N entries with symbolic interface ids, expiry units, timestamp and initial SegID; the real
//! combinator function `SolutionEdge::initialize_segment_id` supplies the SegID of the info
//! field for a use of that segment (full or shortcut, in or against construction direction); the
//! data-plane path is then walked hop by hop with the real `advance_*_with_validator` and
//! `HopMacValidator` under each AS's own key, reversed at the destination and walked back.
//! The MAC is an uninterpreted function (DESIGN.md 2.1): memoised nondeterministic outputs.
#![allow(dead_code, unused_imports, clippy::all)]
use super::*;
use crate::core::view::View;
use crate::dataplane_path::standard::mac::ForwardingKey;
use crate::dataplane_path::standard::routing::{EgressValidateResult, HopMacValidator, IngressAdvanceAction, IngressValidateResult};
use crate::dataplane_path::standard::types::HopFieldMac;
use crate::dataplane_path::standard::view::StandardPathView;
use crate::segment::{AsEntry, HopEntry, SegmentHopField, UnsignedPathSegment};

const K: usize = 12;
static mut TBL_IN: [(u16, u32, u8, u16, u16, u8); K] = [(0, 0, 0, 0, 0, 0); K];
static mut TBL_OUT: [[u8; 6]; K] = [[0; 6]; K];
static mut TBL_N: usize = 0;

/// every function of (beta, timestamp, exp, ingress, egress, key) with non-zero values: the
/// all-zero MAC is the placeholder of a not-yet-authenticated hop field (probability 2^-48 per
/// hop for the real AES-CMAC; outside the claim)
fn mac_stub(beta: u16, ts: u32, exp: u8, ing: u16, eg: u16, key: &ForwardingKey) -> [u8; 6] {
    unsafe {
        let inp = (beta, ts, exp, ing, eg, key[0]);
        let mut i = 0;
        while i < TBL_N {
            if TBL_IN[i] == inp {
                return TBL_OUT[i];
            }
            i += 1;
        }
        let out: [u8; 6] = kani::any();
        kani::assume(out != [0u8; 6]);
        assert!(TBL_N < K, "MAC table of the harness too small");
        TBL_IN[TBL_N] = inp;
        TBL_OUT[TBL_N] = out;
        TBL_N += 1;
        out
    }
}

fn key_of(i: usize) -> ForwardingKey {
    [i as u8 + 1; 16]
}

fn mk_entry(i: usize, ing: u16, eg: u16, exp: u8) -> AsEntry {
    AsEntry {
        local: IsdAsn::from_u64(0x1_0000_0000_0001 + i as u64),
        next: IsdAsn::from_u64(0x1_0000_0000_0002 + i as u64),
        mtu: 1400,
        hop_entry: HopEntry {
            ingress_mtu: 1400,
            hop_field: SegmentHopField { expiration_units: exp, cons_ingress: ing, cons_egress: eg, mac: HopFieldMac([0u8; 6]) },
        },
        peer_entries: Vec::new(),
        extensions: Vec::new(),
        unsigned_extensions: Vec::new(),
    }
}

fn info_stub(timestamp: u32, segment_id: u16) -> crate::segment::SegmentInfo {
    // SegmentInfo::new also prost-encodes the info for signing; irrelevant to the data plane
    crate::segment::SegmentInfo { timestamp, segment_id, encoded: Vec::new() }
}

/// `up`: the segment is used against construction direction (from the leaf towards entry `s`);
/// otherwise in construction direction (from entry `s` to the leaf). `s` = shortcut index
/// (0 = full segment).
fn chain<const N: usize>(up: bool, s: usize) {
    let ifs: [[u16; 2]; N] = kani::any();
    let exps: [u8; N] = kani::any();
    let ts: u32 = kani::any();
    let sid: u16 = kani::any();
    let mut seg = UnsignedPathSegment::new(ts, sid, Vec::new());
    let mut i = 0;
    while i < N {
        seg.add_unsigned_entry(mk_entry(i, ifs[i][0], ifs[i][1], exps[i]), &key_of(i));
        i += 1;
    }
    // --- the combinator decides the initial SegID for this use of the segment
    let input = InputSegment::NonCore(&seg, SegmentID::from([0u8; 32]));
    let leaf = Vertex::AS(IsdAsn::from_u64(0x1_0000_0000_0001 + (N - 1) as u64));
    let other = Vertex::AS(IsdAsn::from_u64(0x1_0000_0000_0001 + s as u64));
    let (src, dst) = if up { (leaf, other) } else { (other, leaf) };
    let e = SolutionEdge { edge: Edge { weight: 1, shortcut_idx: s, peer: None }, src, dst, segment: &input };
    let segid = e.initialize_segment_id();
    // --- data-plane path over entries s..N in travel order
    let k = N - s;
    let mut buf = [0u8; 4 + 8 + 12 * 4]; // N <= 4
    let n = 4 + 8 + 12 * k;
    let meta: u32 = (k as u32) << 12; // seg0 length, bits 14..20 of the meta word
    buf[0..4].copy_from_slice(&meta.to_be_bytes());
    buf[4] = if up { 0 } else { 1 }; // C flag
    buf[6..8].copy_from_slice(&segid.to_be_bytes());
    buf[8..12].copy_from_slice(&ts.to_be_bytes());
    let mut t = 0;
    while t < N {
        if t < k {
            let idx = if up { N - 1 - t } else { s + t };
            let hf = &seg.as_entries[idx].hop_entry.hop_field;
            let o = 12 + 12 * t;
            buf[o + 1] = hf.expiration_units;
            buf[o + 2..o + 4].copy_from_slice(&hf.cons_ingress.to_be_bytes());
            buf[o + 4..o + 6].copy_from_slice(&hf.cons_egress.to_be_bytes());
            buf[o + 6..o + 12].copy_from_slice(&hf.mac.0);
        }
        t += 1;
    }
    let Ok((p, rest)) = StandardPathView::try_from_mut_slice(&mut buf[..n]) else {
        assert!(false, "harness-built path rejected by the view constructor");
        return;
    };
    assert!(rest.is_empty() && p.hop_field_count() as usize == k);
    // --- walk source -> destination, each AS with its own key
    walk::<N>(p, up, s, &ifs, false);
    // --- the destination reverses the path and the reply walks back
    assert!(p.try_reverse().is_ok(), "path at its last hop cannot be reversed");
    walk::<N>(p, !up, s, &ifs, true);
    std::mem::forget(seg);
}

/// `against`: travel against construction direction. `back`: this is the reply leg (the hop list
/// was reversed in place, so hop t of the walk belongs to the same AS order as a fresh path in
/// that direction).
fn walk<const N: usize>(p: &mut StandardPathView, against: bool, s: usize, ifs: &[[u16; 2]; N], back: bool) {
    let k = N - s;
    let mut t = 0;
    while t < N {
        if t < k {
            let idx = if against { N - 1 - t } else { s + t };
            let key = key_of(idx);
            let (want_in, want_out) = if against { (ifs[idx][1], ifs[idx][0]) } else { (ifs[idx][0], ifs[idx][1]) };
            let first = t == 0;
            let last = t + 1 == k;
            let r = p.advance_ingress_with_validator(HopMacValidator { key }, first);
            let out = match r {
                Ok(IngressValidateResult::Ok(o)) => o,
                Ok(IngressValidateResult::ValidationFailed(..)) => {
                    assert!(false, "authentic hop field rejected at ingress");
                    return;
                }
                Err(_) => {
                    assert!(false, "authentic path cannot be advanced at ingress");
                    return;
                }
            };
            assert!(out.ingress_interface == want_in, "path announces another ingress interface than the segment entry");
            match out.action {
                IngressAdvanceAction::ForwardLocal => {
                    assert!(last, "delivered before the destination AS");
                }
                IngressAdvanceAction::ContinueEgress { egress_if } => {
                    assert!(!last, "destination AS asked to forward");
                    assert!(egress_if == want_out, "path announces another egress interface than the segment entry");
                    match p.advance_egress_with_validator(HopMacValidator { key }) {
                        Ok(EgressValidateResult::Ok(eo)) => {
                            assert!(eo.egress_interface == want_out);
                        }
                        Ok(EgressValidateResult::ValidationFailed(..)) => {
                            assert!(false, "authentic hop field rejected at egress");
                            return;
                        }
                        Err(_) => {
                            assert!(false, "authentic path cannot be advanced at egress");
                            return;
                        }
                    }
                }
            }
        }
        t += 1;
    }
    let _ = back;
}

// verif: prop=C01,C11 tier=quick cap=1500 replay=model rot=chain bound="segment of 2 entries (all interface ids, expiry units, timestamp, SegID), used in construction direction, then reversed and walked back" fns="UnsignedPathSegment::add_unsigned_entry,AsEntry::update_macs,SegmentHopField::calculate_mac,mac_chaining_beta,SolutionEdge::initialize_segment_id,StandardPathView::{advance_ingress_with_validator,advance_egress_with_validator,try_reverse},HopMacValidator" stubs="calculate_hop_mac -> memoised nondeterministic function with non-zero values (uninterpreted MAC); SegmentInfo::new -> no protobuf encoding"
#[kani::proof]
#[kani::unwind(14)]
#[kani::stub(crate::dataplane_path::standard::mac::algo::calculate_hop_mac, mac_stub)]
#[kani::stub(crate::segment::SegmentInfo::new, info_stub)]
fn c01_chain_n2_down() {
    chain::<2>(false, 0)
}

// verif: prop=C01,C11 tier=quick cap=1500 replay=model rot=chain bound="segment of 2 entries, used against construction direction, then reversed and walked back" fns="as c01_chain_n2_down" stubs="as c01_chain_n2_down"
#[kani::proof]
#[kani::unwind(14)]
#[kani::stub(crate::dataplane_path::standard::mac::algo::calculate_hop_mac, mac_stub)]
#[kani::stub(crate::segment::SegmentInfo::new, info_stub)]
fn c01_chain_n2_up() {
    chain::<2>(true, 0)
}

// verif: prop=C01,C11 tier=thorough cap=3400 mem=24 replay=model bound="segment of 3 entries, full, construction direction + reply" fns="as c01_chain_n2_down" stubs="as c01_chain_n2_down"
#[kani::proof]
#[kani::unwind(16)]
#[kani::stub(crate::dataplane_path::standard::mac::algo::calculate_hop_mac, mac_stub)]
#[kani::stub(crate::segment::SegmentInfo::new, info_stub)]
fn c01_chain_n3_down() {
    chain::<3>(false, 0)
}

// verif: prop=C01,C11 tier=thorough cap=3400 mem=24 replay=model bound="segment of 3 entries, full, against construction direction + reply" fns="as c01_chain_n2_down" stubs="as c01_chain_n2_down"
#[kani::proof]
#[kani::unwind(16)]
#[kani::stub(crate::dataplane_path::standard::mac::algo::calculate_hop_mac, mac_stub)]
#[kani::stub(crate::segment::SegmentInfo::new, info_stub)]
fn c01_chain_n3_up() {
    chain::<3>(true, 0)
}

// verif: prop=C01,C11 tier=thorough cap=3400 mem=24 replay=model bound="segment of 3 entries, shortcut at entry 1 (2 hops used), construction direction + reply" fns="as c01_chain_n2_down" stubs="as c01_chain_n2_down"
#[kani::proof]
#[kani::unwind(16)]
#[kani::stub(crate::dataplane_path::standard::mac::algo::calculate_hop_mac, mac_stub)]
#[kani::stub(crate::segment::SegmentInfo::new, info_stub)]
fn c01_chain_n3_short1_down() {
    chain::<3>(false, 1)
}

// verif: prop=C01,C11 tier=thorough cap=3400 mem=24 replay=model bound="segment of 3 entries, shortcut at entry 1, against construction direction + reply" fns="as c01_chain_n2_down" stubs="as c01_chain_n2_down"
#[kani::proof]
#[kani::unwind(16)]
#[kani::stub(crate::dataplane_path::standard::mac::algo::calculate_hop_mac, mac_stub)]
#[kani::stub(crate::segment::SegmentInfo::new, info_stub)]
fn c01_chain_n3_short1_up() {
    chain::<3>(true, 1)
}

/// SegID selection alone, against the SCION rule, for every use shape of a 3-entry segment with
/// arbitrary MACs: beta before the first traversed entry in construction order.
fn segid_rule<const N: usize>() {
    let macs: [[u8; 6]; N] = kani::any();
    let sid: u16 = kani::any();
    let s: usize = kani::any();
    kani::assume(s < N - 1);
    let up: bool = kani::any();
    let mut entries = Vec::new();
    let mut i = 0;
    while i < N {
        let mut e = mk_entry(i, kani::any(), kani::any(), kani::any());
        e.hop_entry.hop_field.mac = HopFieldMac(macs[i]);
        entries.push(e);
        i += 1;
    }
    let seg = UnsignedPathSegment::new(kani::any(), sid, entries);
    let input = InputSegment::NonCore(&seg, SegmentID::from([0u8; 32]));
    let leaf = Vertex::AS(IsdAsn::from_u64(0x1_0000_0000_0001 + (N - 1) as u64));
    let other = Vertex::AS(IsdAsn::from_u64(0x1_0000_0000_0001 + s as u64));
    let (src, dst) = if up { (leaf, other) } else { (other, leaf) };
    let e = SolutionEdge { edge: Edge { weight: 1, shortcut_idx: s, peer: None }, src, dst, segment: &input };
    let got = e.initialize_segment_id();
    // first traversed entry in construction order: s in construction direction, N-1 against
    let first = if up { N - 1 } else { s };
    let mut want = sid;
    let mut i = 0;
    while i < N {
        if i < first {
            want ^= u16::from_be_bytes([macs[i][0], macs[i][1]]);
        }
        i += 1;
    }
    kani::cover!(up && s == 1, "shortcut use against construction direction");
    assert!(got == want, "initial SegID is not the chaining value in front of the first traversed entry");
    std::mem::forget(seg);
}

// verif: prop=C01 tier=quick cap=900 bound="3-entry segment, arbitrary MACs and SegID, every non-peer use (full / shortcut at 1, in / against construction direction)" fns="SolutionEdge::initialize_segment_id" stubs="SegmentInfo::new -> no protobuf encoding"
#[kani::proof]
#[kani::unwind(8)]
#[kani::stub(crate::segment::SegmentInfo::new, info_stub)]
fn c01_segid_rule_n3() {
    segid_rule::<3>()
}

// ------------------------------------------------------------------ C11: tamper detection
/// as `mac_stub`, additionally injective: different inputs give different MACs (a 48-bit MAC is
/// not literally collision-free; "any changed bit is detected" is decided modulo MAC collisions)
fn mac_stub_inj(beta: u16, ts: u32, exp: u8, ing: u16, eg: u16, key: &ForwardingKey) -> [u8; 6] {
    unsafe {
        let inp = (beta, ts, exp, ing, eg, key[0]);
        let mut i = 0;
        while i < TBL_N {
            if TBL_IN[i] == inp {
                return TBL_OUT[i];
            }
            i += 1;
        }
        let out: [u8; 6] = kani::any();
        kani::assume(out != [0u8; 6]);
        let mut i = 0;
        while i < K {
            if i < TBL_N {
                kani::assume(TBL_OUT[i] != out);
            }
            i += 1;
        }
        assert!(TBL_N < K, "MAC table of the harness too small");
        TBL_IN[TBL_N] = inp;
        TBL_OUT[TBL_N] = out;
        TBL_N += 1;
        out
    }
}

/// Authentic 2-hop path in construction direction; one symbolic bit of the authenticated bytes of
/// hop field `t` (ExpTime, ConsIngress, ConsEgress, MAC), of the segment timestamp or of the SegID
/// is flipped before the walk: verification fails at the AS owning hop `t` or earlier.
fn tamper_n2() {
    const N: usize = 2;
    let ifs: [[u16; 2]; N] = kani::any();
    let exps: [u8; N] = kani::any();
    let ts: u32 = kani::any();
    let sid: u16 = kani::any();
    let mut seg = UnsignedPathSegment::new(ts, sid, Vec::new());
    let mut i = 0;
    while i < N {
        seg.add_unsigned_entry(mk_entry(i, ifs[i][0], ifs[i][1], exps[i]), &key_of(i));
        i += 1;
    }
    let mut buf = [0u8; 4 + 8 + 12 * N];
    let meta: u32 = (N as u32) << 12;
    buf[0..4].copy_from_slice(&meta.to_be_bytes());
    buf[4] = 1; // construction direction
    buf[6..8].copy_from_slice(&sid.to_be_bytes());
    buf[8..12].copy_from_slice(&ts.to_be_bytes());
    let mut t = 0;
    while t < N {
        let hf = &seg.as_entries[t].hop_entry.hop_field;
        let o = 12 + 12 * t;
        buf[o + 1] = hf.expiration_units;
        buf[o + 2..o + 4].copy_from_slice(&hf.cons_ingress.to_be_bytes());
        buf[o + 4..o + 6].copy_from_slice(&hf.cons_egress.to_be_bytes());
        buf[o + 6..o + 12].copy_from_slice(&hf.mac.0);
        t += 1;
    }
    // which byte, which bit: SegID (6,7), timestamp (8..12), or bytes 1..12 of hop field `owner`
    let what: u8 = kani::any();
    let bit: u8 = kani::any();
    kani::assume(bit < 8);
    let owner: usize = kani::any();
    kani::assume(owner < N);
    let pos = match what % 3 {
        0 => 6 + (kani::any::<u8>() % 2) as usize,
        1 => 8 + (kani::any::<u8>() % 4) as usize,
        _ => 12 + 12 * owner + 1 + (kani::any::<u8>() % 11) as usize,
    };
    let last_allowed = if what % 3 == 2 { owner } else { 0 };
    buf[pos] ^= 1 << bit;
    let Ok((p, _)) = StandardPathView::try_from_mut_slice(&mut buf[..]) else {
        return;
    };
    // walk until a hop rejects; it must happen at or before `last_allowed`
    let mut t = 0;
    while t < N {
        let key = key_of(t);
        let r = p.advance_ingress_with_validator(HopMacValidator { key }, t == 0);
        let out = match r {
            Ok(IngressValidateResult::Ok(o)) => o,
            _ => {
                kani::cover!(t == 1, "tampering detected at the second AS");
                assert!(t <= last_allowed, "tampering detected only after the AS owning the changed hop field");
                std::mem::forget(seg);
                return;
            }
        };
        if let IngressAdvanceAction::ContinueEgress { .. } = out.action {
            match p.advance_egress_with_validator(HopMacValidator { key }) {
                Ok(EgressValidateResult::Ok(_)) => {}
                _ => {
                    assert!(t <= last_allowed, "tampering detected only after the AS owning the changed hop field");
                    std::mem::forget(seg);
                    return;
                }
            }
        }
        assert!(t < last_allowed, "AS accepted a hop field, timestamp or chaining value with a flipped authenticated bit");
        t += 1;
    }
    assert!(false, "tampered path verified at every hop");
}

// verif: prop=C11 tier=thorough cap=3400 mem=24 replay=model bound="authentic 2-entry segment in construction direction (all field values); one flipped bit in SegID, timestamp or any authenticated byte of either hop field" fns="AsEntry::update_macs,StandardPathView::advance_*_with_validator,HopMacValidator::validate_hop" stubs="calculate_hop_mac -> memoised nondeterministic injective function (collision-free MAC assumed); SegmentInfo::new -> no protobuf"
#[kani::proof]
#[kani::unwind(14)]
#[kani::stub(crate::dataplane_path::standard::mac::algo::calculate_hop_mac, mac_stub_inj)]
#[kani::stub(crate::segment::SegmentInfo::new, info_stub)]
fn c11_tamper_n2() {
    tamper_n2()
}
