//! verif-attach: file=crates/libs/scion-sdk-utils/src/backoff.rs crate=scion-sdk-utils mod=verif_c06b
//!
//! C06 — "lookups are re-attempted ... no later than the configured backoff ceiling": the delay
//! computed by the real backoff function never exceeds the configured maximum, for every
//! configuration with finite non-negative parameters, every attempt number and every value of
//! the random jitter factor.
#![allow(dead_code, unused_imports, clippy::all)]
use super::*;

/// rand::random::<f32>() is documented to return a value in [0, 1): stubbed by an arbitrary one.
fn rand_stub<T>() -> T
where
    rand::distr::StandardUniform: rand::distr::Distribution<T>,
{
    let x: f32 = kani::any();
    kani::assume(x >= 0.0 && x < 1.0);
    assert!(std::mem::size_of::<T>() == 4, "rand stub used for another type than f32");
    unsafe { std::mem::transmute_copy::<f32, T>(&x) }
}

/// f32::powi has no precise model in CBMC (it returned negative values for a positive base):
/// replaced by its contract for a finite base >= 0 - some value in [0, +inf], never NaN.
fn powi_stub(base: f32, _n: i32) -> f32 {
    assert!(base >= 0.0, "powi stub contract: base >= 0");
    let r: f32 = kani::any();
    kani::assume(r >= 0.0);
    r
}

fn ceiling(cfg: BackoffConfig) {
    kani::assume(cfg.minimum_delay_secs.is_finite() && cfg.minimum_delay_secs >= 0.0);
    kani::assume(cfg.maximum_delay_secs.is_finite() && cfg.maximum_delay_secs >= 0.0 && cfg.maximum_delay_secs <= 1.0e9);
    kani::assume(cfg.factor.is_finite() && cfg.factor >= 0.0);
    kani::assume(cfg.jitter_secs.is_finite() && cfg.jitter_secs >= 0.0);
    let attempt: u32 = kani::any();
    let b = ExponentialBackoff::new_from_config(cfg);
    let d = b.duration(attempt);
    let ceiling = std::time::Duration::from_secs_f32(cfg.maximum_delay_secs);
    kani::cover!(d == ceiling && cfg.jitter_secs > 0.0, "delay clamped to the ceiling with jitter configured");
    assert!(d <= ceiling, "retry scheduled later than the configured backoff ceiling");
}

// verif: prop=C06 tier=quick cap=300 bound="every backoff configuration with finite minimum >= 0, factor >= 0, jitter >= 0 (all f32 values) and a ceiling from {0, 0.5, 10, 300, 86400, 1e9} s (a symbolic ceiling: no verdict in 300 s - Duration::from_secs_f32 on a symbolic float), every attempt number (u32), every jitter draw in [0,1)" fns="ExponentialBackoff::{new_from_config,duration}" stubs="rand::random -> arbitrary f32 in [0,1); f32::powi -> any value in [0,+inf] (its contract for a base >= 0; CBMC has no model of powi)"
#[kani::proof]
#[kani::stub(rand::random, rand_stub)]
#[kani::stub(f32::powi, powi_stub)]
fn c06_backoff_ceiling() {
    let max = match kani::any::<u8>() % 6 {
        0 => 0.0,
        1 => 0.5,
        2 => 10.0,
        3 => 300.0,
        4 => 86400.0,
        _ => 1.0e9,
    };
    ceiling(BackoffConfig { minimum_delay_secs: kani::any(), maximum_delay_secs: max, factor: kani::any(), jitter_secs: kani::any() })
}
