//! verif-attach: file=crates/pocketscion/src/network/scion/routing/spec.rs crate=pocketscion mod=verif_c13
//!
//! C13 — the simulated data plane, one AS at a time: `StdRoutingLogic::handle_standard_path`,
//! `OneHopRoutingLogic::handle_one_hop_path` and `SpecRoutingLogic::route` against the SCION
//! forwarding rules. Network level by induction: every forwarding step raises the hop pointer,
//! which is bounded by the hop count (<= 63), so a verdict is reached in a bounded number of steps.
#![allow(dead_code, unused_imports, clippy::all)]
use sciparse::dataplane_path::standard::types::InfoFieldFlags;
use sciparse::dataplane_path::standard::view::StandardPathView;
use sciparse::dataplane_path::view::ScionDpPathViewRef;

use super::*;
use crate::network::scion::routing::AsRoutingLinkType;

fn stub_get_default<T, F>(mut f: F) -> T
where
    F: FnMut(&tracing::Dispatch) -> T,
{
    f(&tracing::Dispatch::none())
}
fn stub_register(_c: &'static tracing::callsite::DefaultCallsite) -> tracing::subscriber::Interest {
    tracing::subscriber::Interest::never()
}

fn lt(x: u8) -> AsRoutingLinkType {
    match x % 4 {
        0 => AsRoutingLinkType::LinkToCore,
        1 => AsRoutingLinkType::LinkToParent,
        2 => AsRoutingLinkType::LinkToChild,
        _ => AsRoutingLinkType::LinkToPeer,
    }
}

/// arbitrary interface table over three arbitrary interface ids
#[derive(Clone, Copy)]
struct Table {
    ids: [u16; 3],
    up: [bool; 3],
    lts: [u8; 3],
}
impl Table {
    fn any() -> Self {
        Table { ids: kani::any(), up: kani::any(), lts: kani::any() }
    }
    fn lookup(&self, id: u16) -> Option<AsRoutingInterfaceState> {
        let mut i = 0;
        while i < 3 {
            if self.ids[i] == id {
                return Some(AsRoutingInterfaceState { link_type: lt(self.lts[i]), is_up: self.up[i] });
            }
            i += 1;
        }
        None
    }
}

const fn path_bytes(infos: usize, h: usize) -> usize {
    4 + 8 * infos + 12 * h
}

/// MACs ignored: every standard path of N bytes, arbitrary interface table, clock and arrival
/// interface. Forwarding implies progress, an existing and up egress link, a hop field that is
/// valid at `now`, and (entering from outside) arrival on the interface the hop field names.
fn std_step<const N: usize>() {
    let ingress: u16 = kani::any();
    let now: u32 = kani::any();
    let t = Table::any();
    let mut buf: [u8; N] = kani::any();
    let orig = buf;
    let key = [0u8; 16];
    let lookup = |id: u16| t.lookup(id);
    let Ok((path, _)) = StandardPathView::try_from_mut_slice(&mut buf[..]) else { return };
    let before = path.curr_hop_field_idx();
    let inf_before = path.curr_info_field_idx();
    let hops = path.hop_field_count();
    let res = standard::StdRoutingLogic::handle_standard_path(
        IsdAsn::from_u64(1), path, ingress, ScionNetworkTime(now), &key, &lookup, true);
    match res {
        Ok(AsRoutingAction::ForwardNextHop { egress_interface_id }) => {
            kani::cover!(true, "forwarded");
            kani::cover!(path.curr_info_field_idx() != inf_before, "forwarded across a segment change");
            assert!(path.curr_hop_field_idx() > before, "forwarded without advancing the hop pointer");
            assert!(path.curr_hop_field_idx() < hops, "hop pointer left the path");
            assert!(t.lookup(egress_interface_id).is_some_and(|s| s.is_up), "forwarded over a missing or down link");
            // the hop field that was current on arrival, as it was on arrival
            let (o, _) = StandardPathView::try_from_slice(&orig[..]).unwrap();
            let hf = o.hop_field(before as usize).unwrap();
            let inf = o.info_field(inf_before as usize).unwrap();
            assert!(inf.timestamp() <= now, "forwarded on a segment from the future");
            assert!(hf.expiry_timestamp(inf) >= now, "forwarded on an expired hop field");
            let hop_in = hf.ingress_interface(inf);
            if ingress != 0 && hop_in != 0 {
                assert!(hop_in == ingress, "forwarded a packet that arrived on another interface than its hop field names");
            }
        }
        Ok(AsRoutingAction::Local(LocalAsRoutingAction::ForwardLocal)) => {
            kani::cover!(true, "delivered");
            assert!(before + 1 == hops, "delivered before the last hop field");
            assert!(path.curr_hop_field_idx() == before);
        }
        _ => {}
    }
}

// verif: prop=C13 tier=quick cap=1500 bound="every 68-byte standard path (<= 2 segments, <= 4 hop fields), arbitrary 3-entry interface table (ids, link types, up/down), any clock, any arrival interface; MAC check off" fns="StdRoutingLogic::{handle_standard_path,standard_path_ingress,standard_path_egress},StandardValidator::{validate_hop,validate_segment_change},StandardPathView::advance_*" stubs="tracing dispatcher -> none; MACs ignored (ignore_macs=true)"
#[kani::proof]
#[kani::unwind(8)]
#[kani::stub(tracing::dispatcher::get_default, stub_get_default)]
#[kani::stub(tracing::callsite::DefaultCallsite::register, stub_register)]
fn c13_std_step_h4() {
    std_step::<{ path_bytes(2, 4) }>()
}

// verif: prop=C13 tier=thorough cap=3000 mem=24 bound="every 100-byte standard path (<= 3 segments, <= 6 hop fields)" fns="StdRoutingLogic::handle_standard_path" stubs="tracing dispatcher -> none; MACs ignored"
#[kani::proof]
#[kani::unwind(10)]
#[kani::stub(tracing::dispatcher::get_default, stub_get_default)]
#[kani::stub(tracing::callsite::DefaultCallsite::register, stub_register)]
fn c13_std_step_h6() {
    std_step::<{ path_bytes(3, 6) }>()
}

/// Forwarded across a segment change => the pair (link type of the interface the packet came in
/// by, link type of the interface it leaves by) is one the SCION rules allow: no valleys, no core
/// loops, no splicing.
fn segchange<const N: usize>() {
    let ingress: u16 = kani::any();
    let now: u32 = kani::any();
    let t = Table::any();
    let mut buf: [u8; N] = kani::any();
    let orig = buf;
    let key = [0u8; 16];
    let lookup = |id: u16| t.lookup(id);
    let Ok((path, _)) = StandardPathView::try_from_mut_slice(&mut buf[..]) else { return };
    let inf_before = path.curr_info_field_idx() as usize;
    let hf_before = path.curr_hop_field_idx() as usize;
    let res = standard::StdRoutingLogic::handle_standard_path(
        IsdAsn::from_u64(1), path, ingress, ScionNetworkTime(now), &key, &lookup, true);
    if let Ok(AsRoutingAction::ForwardNextHop { egress_interface_id }) = res {
        if path.curr_info_field_idx() as usize != inf_before {
            kani::cover!(true, "segment change forwarded");
            let (o, _) = StandardPathView::try_from_slice(&orig[..]).unwrap();
            let cur_in = o.hop_field(hf_before).unwrap().ingress_interface(o.info_field(inf_before).unwrap());
            let nxt_eg = o.hop_field(hf_before + 1).unwrap().egress_interface(o.info_field(inf_before + 1).unwrap());
            assert!(nxt_eg == egress_interface_id, "leaves by another interface than the next segment's hop field names");
            let a = t.lookup(cur_in).map(|s| s.link_type);
            let b = t.lookup(nxt_eg).map(|s| s.link_type);
            use AsRoutingLinkType::*;
            let allowed = matches!(
                (a, b),
                (Some(LinkToCore), Some(LinkToChild))
                    | (Some(LinkToChild), Some(LinkToCore))
                    | (Some(LinkToChild), Some(LinkToChild))
                    | (Some(LinkToChild), Some(LinkToPeer))
                    | (Some(LinkToPeer), Some(LinkToChild))
            );
            assert!(allowed, "segment change over a forbidden link-type pair was forwarded");
        }
    }
}

// verif: prop=C13 tier=thorough cap=3000 bound="every 68-byte standard path (<= 2 segments, <= 4 hop fields), arbitrary interface table" fns="StandardValidator::validate_segment_change via handle_standard_path" stubs="tracing dispatcher -> none; MACs ignored"
#[kani::proof]
#[kani::unwind(8)]
#[kani::stub(tracing::dispatcher::get_default, stub_get_default)]
#[kani::stub(tracing::callsite::DefaultCallsite::register, stub_register)]
fn c13_segchange_h4() {
    segchange::<{ path_bytes(2, 4) }>()
}

// ------------------------------------------------------------------ MAC enforcement
// Uninterpreted MAC (DESIGN.md 2.1): memoised nondeterministic function.
const K: usize = 4;
static mut TBL_IN: [(u16, u32, u8, u16, u16); K] = [(0, 0, 0, 0, 0); K];
static mut TBL_OUT: [[u8; 6]; K] = [[0; 6]; K];
static mut TBL_N: usize = 0;

fn mac_stub(beta: u16, ts: u32, exp: u8, ing: u16, eg: u16, _key: &ForwardingKey) -> [u8; 6] {
    unsafe {
        let inp = (beta, ts, exp, ing, eg);
        let mut i = 0;
        while i < TBL_N {
            if TBL_IN[i] == inp {
                return TBL_OUT[i];
            }
            i += 1;
        }
        let out: [u8; 6] = kani::any();
        assert!(TBL_N < K, "MAC table of the harness too small");
        TBL_IN[TBL_N] = inp;
        TBL_OUT[TBL_N] = out;
        TBL_N += 1;
        out
    }
}
fn mac_lookup(beta: u16, ts: u32, exp: u8, ing: u16, eg: u16) -> Option<[u8; 6]> {
    unsafe {
        let mut i = 0;
        while i < TBL_N {
            if TBL_IN[i] == (beta, ts, exp, ing, eg) {
                return Some(TBL_OUT[i]);
            }
            i += 1;
        }
        None
    }
}

/// With MAC checking on: forwarded or delivered => the hop field current on arrival carries the
/// MAC of (beta, timestamp, exp, cons-ingress, cons-egress) under this AS's key, where beta is
/// the chaining value the SCION rule prescribes for the direction of travel.
fn mac_enforced<const N: usize>() {
    let ingress: u16 = kani::any();
    let now: u32 = kani::any();
    let t = Table::any();
    let mut buf: [u8; N] = kani::any();
    let orig = buf;
    let key = [7u8; 16];
    let lookup = |id: u16| t.lookup(id);
    let Ok((path, _)) = StandardPathView::try_from_mut_slice(&mut buf[..]) else { return };
    let hf_before = path.curr_hop_field_idx() as usize;
    let inf_before = path.curr_info_field_idx() as usize;
    let res = standard::StdRoutingLogic::handle_standard_path(
        IsdAsn::from_u64(1), path, ingress, ScionNetworkTime(now), &key, &lookup, false);
    let passed = matches!(
        res,
        Ok(AsRoutingAction::ForwardNextHop { .. }) | Ok(AsRoutingAction::Local(LocalAsRoutingAction::ForwardLocal))
    );
    if passed {
        kani::cover!(true, "packet passed the MAC check");
        let (o, _) = StandardPathView::try_from_slice(&orig[..]).unwrap();
        let hf = o.hop_field(hf_before).unwrap();
        let inf = o.info_field(inf_before).unwrap();
        let cons = inf.flags().contains(InfoFieldFlags::CONS_DIR);
        let m = hf.mac().0;
        // SCION rule: against construction direction and arriving from outside, the chaining
        // value is first rolled back by this hop's MAC
        let beta = if !cons && ingress != 0 { inf.segment_id() ^ u16::from_be_bytes([m[0], m[1]]) } else { inf.segment_id() };
        let want = mac_lookup(beta, inf.timestamp(), hf.exp_time(), hf.cons_ingress(), hf.cons_egress());
        assert!(want == Some(m), "packet passed although its current hop field's MAC was not verified against its key");
    }
}

// verif: prop=C13 tier=quick cap=1500 replay=model bound="every 68-byte standard path (<= 4 hop fields), MAC check on, MAC = uninterpreted function of (beta,ts,exp,in,eg)" fns="StandardValidator::validate_hop MAC branch via handle_standard_path" stubs="calculate_hop_mac -> memoised nondeterministic function (all functions of the MAC inputs, constant key); tracing -> none"
#[kani::proof]
#[kani::unwind(8)]
#[kani::stub(sciparse::dataplane_path::standard::mac::algo::calculate_hop_mac, mac_stub)]
#[kani::stub(tracing::dispatcher::get_default, stub_get_default)]
#[kani::stub(tracing::callsite::DefaultCallsite::register, stub_register)]
fn c13_mac_enforced_h4() {
    mac_enforced::<{ path_bytes(2, 4) }>()
}

// ------------------------------------------------------------------ one-hop paths (C11 clause)
fn onehop_step() {
    use sciparse::core::view::View;
    use sciparse::dataplane_path::onehop::view::OneHopPathView;
    let ingress: u16 = kani::any();
    let now: u32 = kani::any();
    let t = Table::any();
    let j: usize = kani::any();
    let mut buf: [u8; 32] = kani::any();
    let orig = buf;
    kani::assume(j < 32);
    let key = [7u8; 16];
    let lookup = |id: u16| t.lookup(id);
    let Ok((path, _)) = OneHopPathView::try_from_mut_slice(&mut buf[..]) else { return };
    let res = onehop::OneHopRoutingLogic::handle_one_hop_path(
        IsdAsn::from_u64(1), path, ingress, ScionNetworkTime(now), &key, &lookup, true);
    match res {
        Err(_) => {
            kani::cover!(true, "one-hop processing fails");
            assert!(buf[j] == orig[j], "failed one-hop processing changed the path bytes");
        }
        Ok(AsRoutingAction::ForwardNextHop { egress_interface_id }) => {
            assert!(ingress == 0, "one-hop path forwarded onwards by the receiving AS");
            let e = u16::from_be_bytes([orig[8 + 4], orig[8 + 5]]);
            assert!(egress_interface_id == e, "one-hop path leaves by another interface than its first hop field names");
        }
        Ok(AsRoutingAction::Local(LocalAsRoutingAction::ForwardLocal)) => {
            assert!(ingress != 0, "one-hop path from inside delivered locally");
        }
        Ok(_) => {}
    }
}

// verif: prop=C11,C13 tier=quick cap=900 bound="every 32-byte one-hop path, any arrival interface" fns="OneHopRoutingLogic::{handle_one_hop_path,handle_one_hop_path_ingress,handle_one_hop_path_egress},OneHopPathView::set_second_hop" stubs="calculate_hop_mac -> memoised nondeterministic function; tracing -> none"
#[kani::proof]
#[kani::unwind(8)]
#[kani::stub(sciparse::dataplane_path::standard::mac::algo::calculate_hop_mac, mac_stub)]
#[kani::stub(tracing::dispatcher::get_default, stub_get_default)]
#[kani::stub(tracing::callsite::DefaultCallsite::register, stub_register)]
fn c13_onehop_step() {
    onehop_step()
}

// ------------------------------------------------------------------ packet level: local delivery
fn hsp_stub(
    _l: IsdAsn,
    _p: &mut StandardPathView,
    _i: u16,
    _n: ScionNetworkTime,
    _k: &ForwardingKey,
    _f: &impl Fn(u16) -> Option<AsRoutingInterfaceState>,
    _m: bool,
) -> Result<AsRoutingAction, standard::StandardRoutingError> {
    match kani::any::<u8>() % 4 {
        0 => Ok(AsRoutingAction::Local(LocalAsRoutingAction::ForwardLocal)),
        1 => Ok(AsRoutingAction::ForwardNextHop { egress_interface_id: kani::any() }),
        2 => Ok(AsRoutingAction::Drop),
        _ => Err(standard::StandardRoutingError::AdvanceFailed(sciparse::dataplane_path::standard::routing::AdvanceError::HopOutOfBounds(0))),
    }
}

/// Whatever the per-path step answers, a packet is delivered locally only in its destination AS.
/// Header shape fixed (IPv4 addresses, path type `pt`, header length `hdr`), every other byte
/// symbolic - the whole-packet parse with symbolic shapes runs CBMC out of memory.
fn route_local<const N: usize>(pt: u8, hdr: u8) {
    let local: u64 = kani::any();
    let ingress: u16 = kani::any();
    let now: u32 = kani::any();
    let t = Table::any();
    let mut buf: [u8; N] = kani::any();
    kani::assume(buf[0] >> 4 == 0 && buf[5] == hdr / 4 && buf[8] == pt && buf[9] == 0);
    let key = [7u8; 16];
    let lookup = |id: u16| t.lookup(id);
    let Ok((pkt, _)) = ScionRawPacketView::try_from_mut_slice(&mut buf[..]) else { return };
    let local = IsdAsn::from_u64(local);
    let res = SpecRoutingLogic::route(local, pkt, ingress, ScionNetworkTime(now), &key, lookup, true);
    if let Ok(AsRoutingAction::Local(LocalAsRoutingAction::ForwardLocal)) = res {
        kani::cover!(true, "packet delivered locally");
        assert!(pkt.header().dst_ia() == local, "packet delivered locally outside its destination AS");
    }
}

// verif: prop=C13 tier=quick cap=1200 mem=16 bound="every 40-byte packet with IPv4 addresses and an empty path, any local AS" fns="SpecRoutingLogic::route (non-local delivery check)" stubs="tracing -> none"
#[kani::proof]
#[kani::unwind(8)]
#[kani::stub(tracing::dispatcher::get_default, stub_get_default)]
#[kani::stub(tracing::callsite::DefaultCallsite::register, stub_register)]
fn c13_route_local_empty() {
    route_local::<40>(0, 36)
}

// verif: prop=C13 tier=quick cap=1200 mem=16 bound="every 72-byte packet with IPv4 addresses and a standard path (<= 2 hop fields), any local AS; the per-path step answers arbitrarily" fns="SpecRoutingLogic::route (non-local delivery check, error to SCMP conversion)" stubs="StdRoutingLogic::handle_standard_path -> arbitrary verdict (its own obligations: c13_std_step_*); tracing -> none"
#[kani::proof]
#[kani::unwind(8)]
#[kani::stub(standard::StdRoutingLogic::handle_standard_path, hsp_stub)]
#[kani::stub(tracing::dispatcher::get_default, stub_get_default)]
#[kani::stub(tracing::callsite::DefaultCallsite::register, stub_register)]
fn c13_route_local_std() {
    route_local::<72>(1, 72)
}

// ------------------------------------------------------------------ shortcut crossover
/// A shortcut path built by the SCION rule: up segment [leaf, X] used against construction
/// direction, down segment [X, dst] used in construction direction, both hop fields of X in the
/// middle of their segments (non-zero interface towards X's parent). At X the packet arrives on
/// the interface the up-segment hop field names as ConsEgress and must leave on the ConsEgress of
/// the down-segment hop field: the second hop field's own (unused) parent interface must not be
/// held against the arrival interface.
fn crossover_shortcut() {
    let arrive: u16 = kani::any(); // X's interface towards the leaf side child (up segment)
    let leave: u16 = kani::any(); // X's interface towards the destination side child
    let parent_up: u16 = kani::any(); // X's parent interface as recorded in the up segment
    let parent_down: u16 = kani::any(); // ... and in the down segment
    kani::assume(arrive != 0 && leave != 0 && parent_up != 0 && parent_down != 0);
    kani::assume(arrive != leave && arrive != parent_down && leave != parent_up);
    let ts: u32 = kani::any();
    let now: u32 = kani::any();
    kani::assume(ts <= now && now - ts < 300); // every hop field valid at `now` (ExpTime 255 = 24 h)
    let mut buf = [0u8; 4 + 16 + 48];
    // meta: CurrINF 0, CurrHF 1, seg0 = 2, seg1 = 2
    let meta: u32 = (1 << 24) | (2 << 12) | (2 << 6);
    buf[0..4].copy_from_slice(&meta.to_be_bytes());
    // info 0: up segment, against construction direction (C = 0); info 1: down segment, C = 1
    buf[8..12].copy_from_slice(&ts.to_be_bytes());
    buf[12] = 1;
    buf[16..20].copy_from_slice(&ts.to_be_bytes());
    let hf = |b: &mut [u8], o: usize, ing: u16, eg: u16| {
        b[o + 1] = 255;
        b[o + 2..o + 4].copy_from_slice(&ing.to_be_bytes());
        b[o + 4..o + 6].copy_from_slice(&eg.to_be_bytes());
    };
    let leaf_if: u16 = kani::any();
    let dst_if: u16 = kani::any();
    kani::assume(leaf_if != 0 && dst_if != 0);
    hf(&mut buf, 20, leaf_if, 0); // leaf: ConsIngress = its parent link, ConsEgress 0
    hf(&mut buf, 32, parent_up, arrive); // X in the up segment
    hf(&mut buf, 44, parent_down, leave); // X in the down segment
    hf(&mut buf, 56, dst_if, 0); // destination
    let t = Table { ids: [arrive, leave, parent_up], up: [true, true, true], lts: [2, 2, 1] }; // child, child, parent
    let lookup = |id: u16| t.lookup(id);
    let key = [0u8; 16];
    let Ok((path, _)) = StandardPathView::try_from_mut_slice(&mut buf[..]) else {
        assert!(false, "harness-built path rejected");
        return;
    };
    let res = standard::StdRoutingLogic::handle_standard_path(
        IsdAsn::from_u64(1), path, arrive, ScionNetworkTime(now), &key, &lookup, true);
    kani::cover!(res.is_ok(), "crossover forwarded");
    match res {
        Ok(AsRoutingAction::ForwardNextHop { egress_interface_id }) => {
            assert!(egress_interface_id == leave, "shortcut crossover leaves by the wrong interface");
        }
        _ => {
            assert!(false, "valid shortcut crossover (up -> down at a common non-core AS) not forwarded");
        }
    }
}

// verif: prop=C13,C01 tier=quick cap=900 bound="shortcut crossover at a non-core AS: 2+2 hop fields, all interface ids, timestamp and clock symbolic (valid window), child/child link types" fns="StdRoutingLogic::handle_standard_path,StandardValidator::{validate_hop,validate_segment_change}" stubs="tracing -> none; MACs ignored"
#[kani::proof]
#[kani::unwind(8)]
#[kani::stub(tracing::dispatcher::get_default, stub_get_default)]
#[kani::stub(tracing::callsite::DefaultCallsite::register, stub_register)]
fn c13_crossover_shortcut() {
    crossover_shortcut()
}

// ------------------------------------------------------------------ reference router (one AS step)
/// Verdict of one AS on a standard path per the SCION data-plane rules, written from the header
/// format and the forwarding rules only (MAC check off, router-alert flags clear):
/// Some(Ok(e)) = forward on interface e, Some(Err(())) = deliver locally, None = refuse.
fn ref_step(b: &[u8], arrive: u16, now: u32, t: &Table) -> Option<Result<u16, ()>> {
    let meta = u32::from_be_bytes([b[0], b[1], b[2], b[3]]);
    let (ci, ch) = ((meta >> 30) as usize, ((meta >> 24) & 0x3f) as usize);
    let s = [((meta >> 12) & 0x3f) as usize, ((meta >> 6) & 0x3f) as usize, (meta & 0x3f) as usize];
    let infos = (s[0] > 0) as usize + (s[1] > 0) as usize + (s[2] > 0) as usize;
    let hops = s[0] + s[1] + s[2];
    // segment of the current hop field (segments as laid out: zero-length ones hold no hop)
    let (seg, start, end) = if ch < s[0] {
        (0, 0, s[0])
    } else if ch < s[0] + s[1] {
        (1, s[0], s[0] + s[1])
    } else if ch < hops {
        (2, s[0] + s[1], hops)
    } else {
        return None;
    };
    if end - start == 1 || seg != ci {
        return None;
    }
    let inf = |i: usize| -> (bool, u32) {
        let o = 4 + 8 * i;
        (b[o] & 1 == 1, u32::from_be_bytes([b[o + 4], b[o + 5], b[o + 6], b[o + 7]]))
    };
    let hop = |k: usize| -> (u8, u16, u16) {
        let o = 4 + 8 * infos + 12 * k;
        (b[o + 1], u16::from_be_bytes([b[o + 2], b[o + 3]]), u16::from_be_bytes([b[o + 4], b[o + 5]]))
    };
    let valid_at = |ts: u32, exp: u8| -> bool {
        let life = ((exp as u64 + 1) * 675) / 2; // (ExpTime + 1) * 337.5 s
        let expiry = core::cmp::min(ts as u64 + life, u32::MAX as u64) as u32;
        ts <= now && now <= expiry
    };
    if ci >= infos {
        return None;
    }
    let (cons, ts) = inf(ci);
    let (exp, cin, ceg) = hop(ch);
    let (in_if, out_if) = if cons { (cin, ceg) } else { (ceg, cin) };
    // the packet must have come in by the interface its current hop field names
    if arrive != 0 && in_if != 0 && in_if != arrive {
        return None;
    }
    if !valid_at(ts, exp) {
        return None;
    }
    let last = ch + 1 == hops;
    let seg_end = ch + 1 == end;
    if last {
        return Some(Err(())); // seg_end holds as well
    }
    let out = if !seg_end {
        out_if
    } else {
        // segment change: the next segment's first hop field gives the way out
        let ni = seg + 1;
        if ni >= infos {
            return None;
        }
        let (ncons, nts) = inf(ni);
        let (nexp, ncin, nceg) = hop(ch + 1);
        let nout = if ncons { nceg } else { ncin };
        let a = t.lookup(in_if).map(|s| s.link_type);
        let bb = t.lookup(nout).map(|s| s.link_type);
        use AsRoutingLinkType::*;
        let allowed = matches!(
            (a, bb),
            (Some(LinkToCore), Some(LinkToChild))
                | (Some(LinkToChild), Some(LinkToCore))
                | (Some(LinkToChild), Some(LinkToChild))
                | (Some(LinkToChild), Some(LinkToPeer))
                | (Some(LinkToPeer), Some(LinkToChild))
        );
        if !allowed || !valid_at(nts, nexp) {
            return None;
        }
        // the hop field the packet leaves by must belong to the segment the info pointer moves
        // to (a zero-length middle segment breaks that) and must not end its segment or the path
        let (nseg, nend) = if ch + 1 < s[0] { (0, s[0]) } else if ch + 1 < s[0] + s[1] { (1, s[0] + s[1]) } else { (2, hops) };
        if nseg != ni || ch + 2 >= hops || ch + 2 == nend {
            return None;
        }
        nout
    };
    match t.lookup(out) {
        Some(st) if st.is_up => Some(Ok(out)),
        _ => None,
    }
}

fn ref_router_step<const N: usize>() {
    let ingress: u16 = kani::any();
    let now: u32 = kani::any();
    let t = Table::any();
    let mut buf: [u8; N] = kani::any();
    let orig = buf;
    let key = [0u8; 16];
    let lookup = |id: u16| t.lookup(id);
    let Ok((path, _)) = StandardPathView::try_from_mut_slice(&mut buf[..]) else { return };
    // router-alert flags clear on every hop field (SCMP alert handling is not part of the reference)
    let hops = path.hop_field_count() as usize;
    let infos = path.info_field_count() as usize;
    let mut k = 0;
    while k < 4 {
        if k < hops {
            kani::assume(orig[4 + 8 * infos + 12 * k] & 0x03 == 0);
        }
        k += 1;
    }
    let res = standard::StdRoutingLogic::handle_standard_path(
        IsdAsn::from_u64(1), path, ingress, ScionNetworkTime(now), &key, &lookup, true);
    let got = match res {
        Ok(AsRoutingAction::ForwardNextHop { egress_interface_id }) => Some(Ok(egress_interface_id)),
        Ok(AsRoutingAction::Local(LocalAsRoutingAction::ForwardLocal)) => Some(Err(())),
        Ok(_) => {
            assert!(false, "SCMP handling requested although no router-alert flag is set");
            return;
        }
        Err(_) => None,
    };
    let want = ref_step(&orig, ingress, now, &t);
    kani::cover!(matches!(got, Some(Ok(_))), "forwarded");
    kani::cover!(got.is_none() && hops > 1, "refused");
    assert!(got == want, "per-AS verdict differs from the reference router");
}

// verif: prop=C13 tier=quick cap=2400 bound="every 68-byte standard path with clear router-alert flags (<= 2 segments, <= 4 hop fields), arbitrary interface table, clock, arrival interface: forward(e) / deliver / refuse equals the reference router" fns="StdRoutingLogic::handle_standard_path and everything below it" stubs="tracing -> none; MACs ignored"
#[kani::proof]
#[kani::unwind(8)]
#[kani::stub(tracing::dispatcher::get_default, stub_get_default)]
#[kani::stub(tracing::callsite::DefaultCallsite::register, stub_register)]
fn c13_ref_router_h4() {
    ref_router_step::<{ path_bytes(2, 4) }>()
}
