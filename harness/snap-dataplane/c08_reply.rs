//! verif-attach: file=crates/snap/snap-dataplane/src/tunnel_gateway/gateway.rs crate=snap-dataplane mod=verif_c08r
//!
//! C08 — the reply to a rejected datagram: one SCMP parameter problem that fits 1232 bytes and
//! the send buffer, quotes a prefix of the datagram and points inside it.
#![allow(dead_code, unused_imports, clippy::all)]
use std::net::{Ipv4Addr, Ipv6Addr};

use super::*;

fn reply<const N: usize>() {
    let len: usize = kani::any();
    kani::assume(len <= N);
    let is_v4: bool = kani::any();
    let a4: [u8; 4] = kani::any();
    let a6: [u8; 16] = kani::any();
    let j: usize = kani::any();
    let buf: [u8; N] = kani::any();
    let d = &buf[..len];
    let ip = if is_v4 { IpAddr::V4(Ipv4Addr::from(a4)) } else { IpAddr::V6(Ipv6Addr::from(a6)) };
    let Err(e) = inbound_datagram_check(d, ip) else { return };
    let malformed = matches!(e, PacketPolicyError::MalformedPacket(..));
    let msg = create_inbound_scmp_error(e);
    // as TunnelGateway::create_scmp_error builds it
    let local = ScionHostAddr::V4(Ipv4Addr::new(10, 0, 0, 1));
    let dst = ScionAddr::new(IsdAsn::from_u64(kani::any()), ScionHostAddr::V4(Ipv4Addr::from(a4)));
    let pkt = ScionScmpPacket::new(ScionAddr::new(dst.isd_asn(), local), dst, DpPath::Empty, msg);
    let Ok(bytes) = pkt.try_encode_to_vec() else {
        assert!(false, "SCMP reply cannot be encoded");
        return;
    };
    kani::cover!(malformed, "reply to a malformed datagram");
    kani::cover!(!malformed, "reply to a policy violation");
    assert!(bytes.len() <= 1232 && bytes.len() <= PACKET_BUF_SIZE, "SCMP reply does not fit");
    assert!(bytes.len() == 36 + 8 + len.min(1232 - 44), "reply does not quote as much of the datagram as fits");
    assert!(bytes[36] == 4, "reply is not an SCMP parameter problem");
    let ptr = u16::from_be_bytes([bytes[42], bytes[43]]) as usize;
    assert!(ptr <= len, "pointer outside the quoted datagram");
    if !malformed {
        assert!(ptr < len, "pointer outside the quoted datagram");
    }
    if j < len {
        assert!(bytes[44 + j] == buf[j], "reply does not quote the datagram");
    }
    std::mem::forget(pkt);
    std::mem::forget(bytes);
}

// verif: prop=C08 tier=quick cap=1500 bound="all datagrams <= 64 B x every peer address that the filter rejects" fns="create_inbound_scmp_error,ScionScmpPacket::try_encode_to_vec,ScmpParameterProblem::encode_unchecked" stubs="none (packet assembled as in TunnelGateway::create_scmp_error)"
#[kani::proof]
#[kani::unwind(70)]
fn c08_reply_n64() {
    reply::<64>()
}
