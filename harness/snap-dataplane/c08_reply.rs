//! verif-attach: file=crates/snap/snap-dataplane/src/tunnel_gateway/gateway.rs crate=snap-dataplane mod=verif_c08r
//!
//! C08 — the reply to a rejected datagram: one SCMP parameter problem that fits 1232 bytes and
//! the send buffer, quotes a prefix of the datagram and points inside it.
#![allow(dead_code, unused_imports, clippy::all)]
use std::net::{Ipv4Addr, Ipv6Addr};

use super::*;

fn reply<const N: usize>() {
    let len: usize = kani::any();
    kani::assume(len <= N);
    let is_v4: bool = kani::any();
    let a4: [u8; 4] = kani::any();
    let a6: [u8; 16] = kani::any();
    let j: usize = kani::any();
    let buf: [u8; N] = kani::any();
    let d = &buf[..len];
    let ip = if is_v4 { IpAddr::V4(Ipv4Addr::from(a4)) } else { IpAddr::V6(Ipv6Addr::from(a6)) };
    let Err(e) = inbound_datagram_check(d, ip) else { return };
    let malformed = matches!(e, PacketPolicyError::MalformedPacket(..));
    let msg = create_inbound_scmp_error(e);
    kani::cover!(malformed, "reply to a malformed datagram");
    kani::cover!(!malformed, "reply to a policy violation");
    // exactly one message, and it is a parameter problem quoting the datagram
    let scmp::model::ScmpMessage::ParameterProblem(pp) = &msg else {
        assert!(false, "reply is not an SCMP parameter problem");
        return;
    };
    let off = pp.get_offending_packet();
    assert!(off.len() <= len, "reply quotes more than the datagram");
    if malformed {
        assert!(off.len() == len, "reply to a malformed datagram does not quote all of it");
    }
    if j < off.len() {
        assert!(off[j] == buf[j], "reply does not quote the datagram");
    }
    let ptr = pp.pointer as usize;
    assert!(ptr <= off.len(), "pointer outside the quoted datagram");
    if !malformed {
        assert!(ptr < off.len(), "pointer outside the quoted datagram");
    }
    // size of the encoded reply (header 36 B: IPv4 addresses, empty path, as create_scmp_error
    // builds it): within the SCMP limit and the gateway's send buffer for every quoted length
    use sciparse::payload::encode::PayloadEncode;
    let sz = 36 + msg.required_size(36);
    assert!(sz <= 1232 && sz <= PACKET_BUF_SIZE, "SCMP reply does not fit");
    std::mem::forget(msg);
}

// verif: prop=C08 tier=quick cap=1500 bound="all datagrams <= 64 B x every peer address that the filter rejects" fns="create_inbound_scmp_error,ScmpMessage::required_size (encoding itself: C14)" stubs="none"
#[kani::proof]
#[kani::unwind(18)]
fn c08_reply_n64() {
    reply::<64>()
}
