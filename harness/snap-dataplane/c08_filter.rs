//! verif-attach: file=crates/snap/snap-dataplane/src/tunnel_gateway/packet_policy.rs crate=snap-dataplane mod=verif_c08
//!
//! C08 — SNAP ingress filter: `inbound_datagram_check` against a decision procedure written from
//! the SCION header format over raw bytes (no code shared with sciparse).
#![allow(dead_code, unused_imports, clippy::all)]
use std::net::{Ipv4Addr, Ipv6Addr};

use super::*;

/// 0 = accept, 1 = malformed, 2 = bad source, 3 = bad path type
fn reference(d: &[u8], v4: Option<[u8; 4]>, v6: Option<[u8; 16]>) -> u8 {
    if d.len() < 12 {
        return 1;
    }
    if d[0] >> 4 != 0 {
        return 1;
    }
    let hdr_len = d[5] as usize * 4;
    let path_type = d[8];
    let dl = ((d[9] >> 4) & 0x3) as usize;
    let st = (d[9] >> 2) & 0x3;
    let sl = (d[9] & 0x3) as usize;
    let dst_len = (dl + 1) * 4;
    let src_len = (sl + 1) * 4;
    let addr_end = 12 + 16 + dst_len + src_len;
    if d.len() < addr_end {
        return 1;
    }
    let path_len = match path_type {
        0 => 0,
        1 => {
            if d.len() < addr_end + 4 {
                return 1;
            }
            let m = u32::from_be_bytes([d[addr_end], d[addr_end + 1], d[addr_end + 2], d[addr_end + 3]]);
            let s0 = ((m >> 12) & 0x3f) as usize;
            let s1 = ((m >> 6) & 0x3f) as usize;
            let s2 = (m & 0x3f) as usize;
            let infos = (s0 > 0) as usize + (s1 > 0) as usize + (s2 > 0) as usize;
            4 + infos * 8 + (s0 + s1 + s2) * 12
        }
        2 => 8 + 2 * 12,
        _ => {
            if hdr_len < addr_end {
                return 1;
            }
            hdr_len - addr_end
        }
    };
    let total = addr_end + path_len;
    if total > d.len() {
        return 1;
    }
    if total != hdr_len {
        return 1;
    }
    let src = &d[12 + 16 + dst_len..12 + 16 + dst_len + src_len];
    let src_ok = match (st, sl) {
        (0, 0) => v4.is_some_and(|a| src == a),
        (0, 3) => v6.is_some_and(|a| src == a),
        _ => false,
    };
    if !src_ok {
        return 2;
    }
    if path_type != 0 && path_type != 1 {
        return 3;
    }
    0
}

fn filter_equals_reference<const N: usize>() {
    let len: usize = kani::any();
    kani::assume(len <= N);
    let is_v4: bool = kani::any();
    let a4: [u8; 4] = kani::any();
    let a6: [u8; 16] = kani::any();
    let buf: [u8; N] = kani::any();
    let d = &buf[..len];
    let ip = if is_v4 { IpAddr::V4(Ipv4Addr::from(a4)) } else { IpAddr::V6(Ipv6Addr::from(a6)) };
    let got = match inbound_datagram_check(d, ip) {
        Ok(v) => {
            // the accepted view is a prefix of the datagram
            let s = v.as_slice();
            assert!(s.as_ptr() == d.as_ptr() && s.len() <= d.len());
            0u8
        }
        Err(PacketPolicyError::MalformedPacket(..)) => 1,
        Err(PacketPolicyError::InvalidSourceAddress(_)) => 2,
        Err(PacketPolicyError::InvalidPathType(..)) => 3,
    };
    let want = reference(d, if is_v4 { Some(a4) } else { None }, if is_v4 { None } else { Some(a6) });
    kani::cover!(got == 0 && is_v4, "accept reachable (v4 peer)");
    kani::cover!(got == 0 && !is_v4, "accept reachable (v6 peer)");
    kani::cover!(got == 3, "path type reject reachable");
    kani::cover!(got == 2, "source reject reachable");
    assert!(got == want, "ingress filter verdict differs from the reference decision procedure");
}

// verif: prop=C08 tier=quick cap=600 bound="all datagrams <= 64 B x every IPv4 or IPv6 peer address" fns="inbound_datagram_check,ScionPacketView::try_from_slice,ScionHeaderView::{src_host_addr,path_type}" stubs="none"
#[kani::proof]
#[kani::unwind(17)]
fn c08_filter_ref_n64() {
    filter_equals_reference::<64>()
}

// verif: prop=C08 tier=thorough cap=3000 mem=24 bound="all datagrams <= 160 B x every IPv4 or IPv6 peer address" fns="inbound_datagram_check,ScionPacketView::try_from_slice,ScionHeaderView::{src_host_addr,path_type}" stubs="none"
#[kani::proof]
#[kani::unwind(17)]
fn c08_filter_ref_n160() {
    filter_equals_reference::<160>()
}
