#!/usr/bin/env python3
"""Runner for solver-based checks of Anapaya/scion-sdk (see /verif/DESIGN.md §1.2).

snapshot /repo -> inject harness modules -> cargo kani per harness (CBMC decides) ->
parse verdicts -> known-finding triage -> native replay of counterexamples -> evidence.

Exit codes of a check: 0 = every harness discharged (or only listed known findings failed),
1 = a counterexample reproduced natively (VIOLATION line printed), 2 = inconclusive
(cannot attach / timeout / out of memory / vacuous / counterexample did not reproduce).
"""
import fcntl
import json
import os
import re
import shlex
import shutil
import signal
import subprocess
import sys
import threading
import time
from concurrent.futures import ThreadPoolExecutor
from pathlib import Path

VERIF = Path(os.environ.get("VERIF_ROOT", "/verif"))
REPO = Path(os.environ.get("VERIF_REPO", "/repo"))
WORK = Path(os.environ.get("VERIF_WORK", str(VERIF / "work")))
WS = WORK / "ws"
HARNESS_DIR = VERIF / "harness"
NJOBS = int(os.environ.get("VERIF_JOBS", "8"))
TARGET = WORK / "target"
REPLAYS = Path(os.environ.get("VERIF_REPLAY_DIR", str(VERIF / "replays")))
MEM_BUDGET_GB = float(os.environ.get("VERIF_MEM_GB", "54"))
MEM_CAP_GB = {"quick": 10.0, "thorough": 24.0}
ENV = dict(os.environ, CARGO_NET_OFFLINE="true", CARGO_TERM_COLOR="never")
ENV.pop("RUSTUP_TOOLCHAIN", None)


def log(*a):
    print(*a, flush=True)


# --------------------------------------------------------------------------------------
# harness catalogue: parsed from the harness files themselves
# --------------------------------------------------------------------------------------
class Harness:
    def __init__(self, **kw):
        self.__dict__.update(kw)

    def __repr__(self):
        return f"<{self.name} {self.props} {self.tier}>"


def _kv(s):
    out = {}
    for tok in shlex.split(s):
        if "=" in tok:
            k, v = tok.split("=", 1)
            out[k] = v
    return out


def scan_harnesses():
    """Each harness file starts with `//! verif-attach: file=<repo file> crate=<pkg> mod=<name>`;
    each proof is preceded by one or more `// verif: key=value ...` lines."""
    files, harnesses = [], []
    for path in sorted(HARNESS_DIR.rglob("*.rs")):
        text = path.read_text()
        m = re.search(r"^//! verif-attach:(.*)$", text, re.M)
        if not m:
            continue  # helper file, #[path]-included by others
        att = _kv(m.group(1))
        att["path"] = path
        files.append(att)
        pending = {}
        lines = text.splitlines()
        i = 0
        while i < len(lines):
            ln = lines[i].strip()
            if ln.startswith("// verif:"):
                pending.update(_kv(ln[len("// verif:"):]))
            elif ln.startswith("#[kani::proof"):
                j = i
                fn = None
                unwind = None
                while j < len(lines):
                    mu = re.search(r"kani::unwind\((\d+)\)", lines[j])
                    if mu:
                        unwind = int(mu.group(1))
                    mf = re.match(r"\s*(?:pub(?:\(crate\))?\s+)?fn\s+(\w+)\s*\(", lines[j])
                    if mf:
                        fn = mf.group(1)
                        break
                    j += 1
                if fn and pending.get("prop"):
                    harnesses.append(Harness(
                        name=fn, file=path, crate=att["crate"], attach=att["file"],
                        features=att.get("features", ""),
                        cbmc_args=pending.get("cbmc_args", ""),
                        props=pending["prop"].split(","), tier=pending.get("tier", "quick"),
                        cap=int(pending.get("cap", "600")), mem=float(pending.get("mem", "0")),
                        bound=pending.get("bound", ""), fns=pending.get("fns", ""),
                        stubs=pending.get("stubs", ""), covers=int(pending.get("covers", "-1")),
                        rot=pending.get("rot", ""), unwind=unwind,
                        replay=pending.get("replay", "native"),
                        witness=pending.get("witness", ""),
                    ))
                pending = {}
                i = j
            i += 1
    names = [h.name for h in harnesses]
    for a in names:
        for b in names:
            if a != b and a in b:
                raise SystemExit(f"harness name {a!r} is a substring of {b!r}: --harness filters would overlap")
    return files, harnesses


# --------------------------------------------------------------------------------------
# snapshot + injection
# --------------------------------------------------------------------------------------
def snapshot(files):
    """Make WS a byte-for-byte copy of /repo's working tree (minus target/.git) with one
    `#[cfg(kani)] #[path=..] mod ..;` line appended to each attach target. Idempotent; keeps
    mtimes so cargo rebuilds only what changed in /repo or in the harness files."""
    WORK.mkdir(parents=True, exist_ok=True)
    # not while another check of this work dir compiles from the snapshot
    bl = BuildLock()
    bl.acquire()
    lock = open(WORK / "ws.lock", "w")
    fcntl.flock(lock, fcntl.LOCK_EX)
    try:
        by_target = {}
        for att in files:
            by_target.setdefault(att["file"], []).append(att)
        excl = WORK / "rsync-exclude.txt"
        excl.write_text("".join(f"/{t}\n" for t in by_target))
        WS.mkdir(parents=True, exist_ok=True)
        subprocess.run(
            ["rsync", "-a", "--delete", "--exclude", "/target", "--exclude", "/.git",
             "--exclude-from", str(excl), f"{REPO}/", f"{WS}/"], check=True)
        # harness files are copied next to the snapshot: a check compiles the harness text as it
        # was when the check started, not what is being edited meanwhile
        hcopy = WORK / "harness"
        subprocess.run(["rsync", "-a", "--delete", "--checksum", f"{HARNESS_DIR}/", f"{hcopy}/"], check=True)
        missing = []
        for target, atts in by_target.items():
            src = REPO / target
            dst = WS / target
            if not src.is_file():
                missing.append(target)
                if dst.exists():
                    dst.unlink()
                continue
            body = src.read_text()
            if not body.endswith("\n"):
                body += "\n"
            for att in atts:
                cond = "kani"
                if att.get("features"):
                    cond = "all(kani, " + ", ".join(f'feature = "{x}"' for x in att["features"].split(",")) + ")"
                hp = WORK / "harness" / Path(att["path"]).relative_to(HARNESS_DIR)
                body += f'#[cfg({cond})] #[path = "{hp}"] mod {att["mod"]};\n'
            # rewritten only when the text differs (new /repo content or new attach lines), so
            # its mtime moves exactly when cargo has to rebuild
            if not dst.exists() or dst.read_text() != body:
                dst.parent.mkdir(parents=True, exist_ok=True)
                dst.write_text(body)
        (WS / ".cargo").mkdir(exist_ok=True)
        cfg = WS / ".cargo" / "config.toml"
        want = "[net]\noffline = true\n"
        base = (REPO / ".cargo" / "config.toml")
        if base.is_file():
            want = base.read_text() + "\n" + want
        if not cfg.exists() or cfg.read_text() != want:
            cfg.write_text(want)
        return missing
    finally:
        fcntl.flock(lock, fcntl.LOCK_UN)
        lock.close()
        bl.release()


# --------------------------------------------------------------------------------------
# running one harness
# --------------------------------------------------------------------------------------
class BuildLock:
    """cargo-kani invocations share one target dir. cargo serialises the compile itself, but the
    driver's goto-cc/goto-instrument steps that follow run outside cargo's lock, so the whole
    span "cargo kani started .. first CBMC started" is serialised here (cross-process flock);
    the CBMC runs of different invocations overlap."""

    def __init__(self):
        self.fh = None

    def acquire(self):
        WORK.mkdir(parents=True, exist_ok=True)
        self.fh = open(WORK / "build.lock", "w")
        fcntl.flock(self.fh, fcntl.LOCK_EX)

    def release(self):
        if self.fh:
            fcntl.flock(self.fh, fcntl.LOCK_UN)
            self.fh.close()
            self.fh = None

    def __enter__(self):
        self.acquire()
        return TARGET

    def __exit__(self, *a):
        self.release()


def Slot():
    return BuildLock()


def _procs_of_group(pgid):
    """[(pid, etimes, rss_kb, args)] of the processes in a process group"""
    out = subprocess.run(["ps", "-eo", "pid=,pgid=,etimes=,rss=,args="], capture_output=True, text=True).stdout
    res = []
    for ln in out.splitlines():
        p = ln.split(None, 4)
        if len(p) == 5 and p[1] == str(pgid):
            res.append((int(p[0]), int(p[2]), int(p[3]), p[4]))
    return res


def _tree_rss_kb(pgid):
    total = 0
    try:
        out = subprocess.run(["ps", "-eo", "pgid=,rss="], capture_output=True, text=True).stdout
        for ln in out.splitlines():
            p = ln.split()
            if len(p) == 2 and p[0] == str(pgid):
                total += int(p[1])
    except Exception:
        pass
    return total


def run_cmd(cmd, cwd, timeout_s, mem_gb, logfile):
    """Run in its own process group; kill the group on timeout or when resident memory of the
    group passes mem_gb. Returns (status, output) with status in ok|timeout|oom."""
    with open(logfile, "w") as lf:
        p = subprocess.Popen(cmd, cwd=cwd, stdout=lf, stderr=subprocess.STDOUT, env=ENV,
                             start_new_session=True)
        t0 = time.time()
        status = "ok"
        peak = 0
        while True:
            try:
                p.wait(timeout=3)
                break
            except subprocess.TimeoutExpired:
                pass
            rss = _tree_rss_kb(p.pid)
            peak = max(peak, rss)
            if time.time() - t0 > timeout_s:
                status = "timeout"
            elif rss > mem_gb * 1024 * 1024:
                status = "oom"
            if status != "ok":
                try:
                    os.killpg(p.pid, signal.SIGKILL)
                except ProcessLookupError:
                    pass
                p.wait()
                break
    return status, Path(logfile).read_text(errors="replace"), p.returncode, peak / 1024 / 1024


RE_VER = re.compile(r"VERIFICATION:- (SUCCESSFUL|FAILED)")
RE_FAILN = re.compile(r"\*\* (\d+) of (\d+) failed(?: \((?:(\d+) unreachable)?(?:, )?(?:(\d+) undetermined)?\))?")
RE_COVER = re.compile(r"\*\* (\d+) of (\d+) cover properties satisfied")
RE_TIME = re.compile(r"Verification Time: ([\d.]+)s")
RE_FAILED = re.compile(r"^Failed Checks: (.*)$", re.M)
RE_CHECK = re.compile(
    r"^Check \d+: (.+)\n\s+- Status: (\w+)\n\s+- Description: \"(.*)\"\n(?:\s+- Location: (.*)\n)?", re.M)


def parse_kani(out):
    r = {"verdict": None, "checks": 0, "failed": 0, "unreachable": 0, "undetermined": 0, "covers": None, "covers_sat": None,
         "solver_s": None, "failed_checks": [], "cover_results": [], "problems": []}
    m = RE_VER.search(out)
    if m:
        r["verdict"] = m.group(1)
    m = RE_FAILN.search(out)
    if m:
        r["failed"], r["checks"] = int(m.group(1)), int(m.group(2))
        r["unreachable"] = int(m.group(3) or 0)
        r["undetermined"] = int(m.group(4) or 0)
    m = RE_COVER.search(out)
    if m:
        r["covers_sat"], r["covers"] = int(m.group(1)), int(m.group(2))
    m = RE_TIME.search(out)
    if m:
        r["solver_s"] = float(m.group(1))
    for m in RE_CHECK.finditer(out):
        name, status, desc, loc = m.groups()
        if ".cover." in name or name.endswith(".cover") or "cover" in name.split(".")[-2:]:
            r["cover_results"].append({"desc": desc, "status": status})
        elif status == "FAILURE":
            r["failed_checks"].append({"check": name, "status": status, "desc": desc, "loc": loc or ""})
    if r["verdict"] == "FAILED" and not r["failed_checks"]:
        # never let an unparsed failure look like "nothing failed": fall back to the summary lines
        for m in RE_FAILED.finditer(out):
            r["failed_checks"].append({"check": "?", "status": "FAILURE", "desc": m.group(1).strip().strip('"'), "loc": ""})
    for fc in r["failed_checks"]:
        d = fc["desc"]
        if "unwinding assertion" in d or "recursion unwinding" in d:
            r["problems"].append("unwinding bound too small: " + d + " @ " + fc["loc"])
        if "not currently supported by Kani" in d or "unsupported" in fc["check"]:
            if fc["status"] == "FAILURE":
                r["problems"].append("unsupported construct reachable: " + d)
    if "CBMC failed" in out or "Status: ERROR" in out or "out of memory" in out.lower():
        r["problems"].append("CBMC error / out of memory")
    if "error: could not compile" in out or re.search(r"^error(\[E\d+\])?:", out, re.M):
        if r["verdict"] is None:
            r["problems"].append("compile error")
    if "no harnesses matched" in out.lower() or "No proof harnesses" in out:
        r["problems"].append("harness not found")
    return r


def kani_cmd(h, target_dir, extra=(), names=None):
    feat = ["--features", h.features] if h.features else []
    extra = list(extra)
    if h.cbmc_args:
        # --cbmc-args must come last and only once
        if "--cbmc-args" in extra:
            extra += h.cbmc_args.split()
        else:
            extra += ["--cbmc-args", *h.cbmc_args.split()]
    hs = []
    for n in (names or [h.name]):
        hs += ["--harness", n]
    return ["cargo", "kani", "-p", h.crate, *feat, "-Z", "stubbing", "-Z", "unstable-options", *hs,
            "--target-dir", str(target_dir), *extra]


def group_key(h):
    return (h.crate, h.features, h.cbmc_args)


def run_group(hs, tier, logdir):
    """One cargo-kani invocation for all harnesses of a property that live in the same crate
    (same features, same extra CBMC arguments): one compile, CBMC runs in parallel (-j),
    per-harness verdicts in per-harness files. Caps are enforced per CBMC process."""
    t0 = time.time()
    h0 = hs[0]
    glog = logdir / f"group-{h0.crate}-{abs(hash(group_key(h0))) % 10000}.log"
    resdir = TARGET / "result_output_dir"
    for h in hs:
        for f in resdir.glob(f"*::{h.name}") if resdir.exists() else []:
            f.unlink()
    # caps are per process; default-cap harnesses stay far below them (planned at 60 %), harnesses
    # with an explicit mem= are the measured heavy ones (planned at 80 %): the largest N whose
    # planned sizes fit the budget may run together; a group-wide guard (below) handles overshoot
    planned = sorted(((0.8 * h.mem) if h.mem else (0.6 * MEM_CAP_GB[tier]) for h in hs), reverse=True)
    jobs, acc = 0, 0.0
    for sz in planned:
        if acc + sz > MEM_BUDGET_GB or jobs >= NJOBS:
            break
        acc += sz
        jobs += 1
    jobs = max(1, jobs)
    cmd = kani_cmd(h0, TARGET, ["-j", str(jobs), "--output-format", "terse", "--output-into-files"],
                   names=[h.name for h in hs])
    lock = BuildLock()
    lock.acquire()
    killed = {}
    peak = {h.name: 0.0 for h in hs}
    started = {}
    build_s = None
    with open(glog, "w") as lf:
        p = subprocess.Popen(cmd, cwd=WS, stdout=lf, stderr=subprocess.STDOUT, env=ENV, start_new_session=True)
        while True:
            try:
                p.wait(timeout=2)
                break
            except subprocess.TimeoutExpired:
                pass
            procs = _procs_of_group(p.pid)
            cb = [(pid, et, rss, args) for pid, et, rss, args in procs if args.startswith("cbmc ")]
            if lock.fh is not None:
                txt = glog.read_text(errors="replace") if glog.exists() else ""
                if cb or "Checking harness" in txt:
                    build_s = time.time() - t0
                    lock.release()
            total_rss = sum(rss for _, _, rss, _ in cb) / 1024 / 1024
            if total_rss > MEM_BUDGET_GB and cb:
                # group-wide guard: stop the largest CBMC, it is reported as out of memory
                pid, et, rss, args = max(cb, key=lambda x: x[2])
                hbig = next((x for x in hs if (x.name + ".out") in args), None)
                if hbig is not None and hbig.name not in killed:
                    killed[hbig.name] = f"out of memory (group budget {MEM_BUDGET_GB} GB)"
                    try:
                        os.kill(pid, signal.SIGKILL)
                    except ProcessLookupError:
                        pass
            for pid, et, rss, args in cb:
                h = next((x for x in hs if (x.name + ".out") in args), None)
                if h is None:
                    continue
                peak[h.name] = max(peak[h.name], rss / 1024 / 1024)
                started.setdefault(h.name, time.time() - et)
                mem = h.mem or MEM_CAP_GB[tier]
                why = None
                if et > h.cap:
                    why = f"timeout (cap {h.cap}s)"
                elif rss > mem * 1024 * 1024:
                    why = f"out of memory (cap {mem} GB)"
                if why and h.name not in killed:
                    killed[h.name] = why
                    try:
                        os.kill(pid, signal.SIGKILL)
                    except ProcessLookupError:
                        pass
            if time.time() - t0 > 3 * 3600:
                try:
                    os.killpg(p.pid, signal.SIGKILL)
                except ProcessLookupError:
                    pass
    lock.release()
    gout = glog.read_text(errors="replace")
    compile_err = None
    if "error: could not compile" in gout or re.search(r"^error(\[E\d+\])?:", gout, re.M):
        m = re.search(r"^error", gout, re.M)
        compile_err = gout[m.start():m.start() + 1500] if m else "compile error"
    results = []
    for h in hs:
        f = next(iter(resdir.glob(f"*::{h.name}")), None) if resdir.exists() else None
        out = f.read_text(errors="replace") if f else ""
        hlog = logdir / f"{h.name}.log"
        hlog.write_text(out if out else gout[-20000:])
        res = parse_kani(out)
        res.update(name=h.name, wall_s=round(time.time() - t0, 1), rc=p.returncode,
                   peak_rss_gb=round(peak[h.name], 2), log=str(hlog), build_s=round(build_s or 0, 1))
        if h.name in killed:
            res["outcome"], res["reason"] = "inconclusive", killed[h.name]
        elif not out:
            res["outcome"] = "inconclusive"
            res["reason"] = ("cannot attach / compile error: " + compile_err.splitlines()[0]) if compile_err else \
                "no verdict written (harness not found or driver failed); see " + str(glog)
        elif res["verdict"] == "SUCCESSFUL" and not res["problems"]:
            if res["covers"] is not None and res["covers_sat"] != res["covers"]:
                res["outcome"] = "inconclusive"
                res["reason"] = f"vacuity witness missing: {res['covers_sat']} of {res['covers']} covers satisfied"
            elif h.covers >= 0 and (res["covers"] or 0) < h.covers:
                res["outcome"] = "inconclusive"
                res["reason"] = f"expected >= {h.covers} cover witnesses, saw {res['covers']}"
            else:
                res["outcome"] = "pass"
        elif res["verdict"] == "FAILED" and not res["problems"]:
            res["outcome"] = "fail"
        else:
            res["outcome"] = "inconclusive"
            res["reason"] = "; ".join(res["problems"]) or "no verdict"
        res["harness"] = h
        results.append(res)
    return results


# --------------------------------------------------------------------------------------
# replay
# --------------------------------------------------------------------------------------
RE_TEST = re.compile(r"(/// Test generated for harness.*?\n(?:///.*\n)*\s*#\[test\]\nfn (kani_concrete_playback_\w+)\(\) \{.*?\n\})", re.S)


def _gen_playback(h, logdir, sliced, prop_ids=()):
    extra = ["-Z", "concrete-playback", "--concrete-playback=print"]
    cb = []
    if sliced:
        # Kani drops --slice-formula in playback mode; with big arrays (C17's 64 KiB slot) the
        # unsliced query runs out of memory, so a sliced trace is the fallback.
        cb += ["--slice-formula"]
    if prop_ids and all(".assertion." in p or ".cover." in p for p in prop_ids) and not sliced:
        # the failed checks are assertions of the code or the harness: drop CBMC's own pointer /
        # bounds instrumentation for the trace run, the unsliced query then stays small
        extra += ["--no-default-checks", "--no-assertion-reach-checks"]
    if cb:
        extra += ["--cbmc-args", *cb]
    with BuildLock() as tdir:
        status, out, rc, _ = run_cmd(
            kani_cmd(h, tdir, extra), WS, min(h.cap * 2, 1500), MEM_CAP_GB["thorough"],
            logdir / f"{h.name}.playback-gen-{'sliced' if sliced else 'full'}.log")
    tests = []
    cur = None
    blocks = []
    for ln in out.splitlines():
        if ln.startswith("/// Test generated for harness"):
            cur = [ln]
        elif cur is not None:
            cur.append(ln)
            if ln == "}":
                blocks.append("\n".join(cur))
                cur = None
    for body in blocks:
        mn = re.search(r"^fn (kani_concrete_playback_\w+)\(\)", body, re.M)
        if not mn:
            continue
        name = mn.group(1)
        mc = re.search(r"Check for `(\w+)`: \"+(.*?)\"+\s*$", body, re.M)
        kind, desc = (mc.group(1), mc.group(2)) if mc else ("?", "?")
        # values the slicer dropped are missing from the vector; harnesses draw bulk byte arrays
        # last, so pad with zero bytes (consumed only if the vector runs out)
        body = body.replace("    ];\n    kani::concrete_playback_run",
                            "    ];\n    let mut concrete_vals = concrete_vals;\n"
                            "    concrete_vals.extend(std::iter::repeat(vec![0u8]).take(8192));\n"
                            "    kani::concrete_playback_run")
        tests.append((name, desc if kind != "cover" else "cover:" + desc, body))
    # Kani names tests by a hash of their values: an assertion test equal to a cover test is
    # emitted once, under the cover's label. Keep all, assertion tests first.
    tests.sort(key=lambda t: t[1].startswith("cover:"))
    # the same value vector is printed once per check it witnesses: one test per name
    seen, uniq = set(), []
    for t in tests:
        if t[0] not in seen:
            seen.add(t[0])
            uniq.append(t)
    return uniq[:6]


def _native_reproduces(output, desc, failed_descs=()):
    if desc.startswith("cover:"):
        # a cover witness counts only if the native run panics with one of the failed checks
        if not _native_reproduces_one(output, "?"):
            return False
        return any(d.strip('"')[:40] in output for d in failed_descs if "placeholder" not in d)
    return _native_reproduces_one(output, desc)


def _native_reproduces_one(output, desc):
    if "panicked at" not in output or "test result: FAILED" not in output:
        return False
    if "Not enough det vals found" in output or "bytes instead of" in output or "det vals vec" in output:
        return False  # input vector misaligned: not a reproduction
    if "kani::assume should always hold" in output:
        return False
    if "placeholder message" in desc or desc in ("?", ""):
        # any panic of the code under test counts - but not Kani's own end-of-playback panic
        # ("there were still these concrete values left over": the padded vector was not used up,
        # i.e. the run reached the end of the harness without failing)
        own = [l for l in output.splitlines() if "panicked at" in l and "concrete_playback.rs" not in l]
        return bool(own)
    key = desc.strip('"')
    key = key.split(":")[0] if key.startswith("index out of bounds") else key
    return key[:40] in output


def replay_counterexample(h, prop, res, logdir, known_descs=()):
    """Ask Kani for concrete playback tests, build them natively against the real code
    (dev profile) and see whether the failing assertion panics there."""
    rdir = REPLAYS / prop
    rdir.mkdir(parents=True, exist_ok=True)
    rfile = rdir / f"{h.name}.rs"
    header = [f"// replay for property {prop}, harness {h.name} ({h.file})",
              f"// failed checks reported by CBMC:"]
    header += [f"//   {fc['desc']} @ {fc['loc']}" for fc in res["failed_checks"]]
    all_details = []
    fail_ids = [fc["check"] for fc in res["failed_checks"] if not any(re.search(k, fc["desc"]) for k in known_descs)][:4]
    for sliced in (False, True):
        tests = _gen_playback(h, logdir, sliced, fail_ids)
        tests = [t for t in tests if not any(re.search(k, t[1]) for k in known_descs)]
        if not tests:
            all_details.append(f"{'sliced' if sliced else 'full'} trace: no playback test generated")
            continue
        # native build: a second workspace copy with the harness file replaced by harness+tests
        rws = WORK / "replay-ws"
        subprocess.run(["rsync", "-a", "--delete", "--exclude", "/target", f"{WS}/", f"{rws}/"], check=True)
        hsrc = h.file.read_text()
        tests_src = "\n\n".join(b for _, _, b in tests)
        injected = hsrc + "\n#[cfg(test)]\nmod verif_playback {\n    use super::*;\n" + tests_src + "\n}\n"
        rfile.write_text("\n".join(header) + "\n" + injected)
        tgt = rws / h.attach
        hp = WORK / "harness" / Path(h.file).relative_to(HARNESS_DIR)
        tgt.write_text(tgt.read_text().replace(f'"{hp}"', f'"{rfile}"'))
        reproduced = []
        details = []
        for name, desc, _ in tests:
            feat = ["--features", h.features] if h.features else []
            cmd = ["cargo", "kani", "playback", "-Z", "concrete-playback", "-p", h.crate, *feat, "--", name]
            env_target = dict(ENV, CARGO_TARGET_DIR=str(WORK / "target-playback"))
            lf = logdir / f"{h.name}.playback-{name[-8:]}.log"
            with open(lf, "w") as f:
                subprocess.run(cmd, cwd=rws, stdout=f, stderr=subprocess.STDOUT, env=env_target)
            o = lf.read_text(errors="replace")
            ok = _native_reproduces(o, desc, [fc['desc'] for fc in res['failed_checks']])
            details.append(f"{name}: {'reproduced' if ok else 'did not reproduce'} ({desc})")
            if ok:
                reproduced.append(name)
        with open(rfile, "a") as f:
            f.write(f"\n// native replay ({'sliced' if sliced else 'full'} trace; cargo kani playback, dev profile, real code):\n")
            for d in details:
                f.write(f"//   {d}\n")
            f.write(f"// re-run: bin/check {prop} --replay {rfile}\n")
        all_details += details
        if reproduced:
            return True, rfile, "; ".join(all_details)
    if not rfile.exists():
        rfile.write_text("\n".join(header) + "\n// Kani produced no concrete playback test.\n")
    return False, rfile, "; ".join(all_details)


# --------------------------------------------------------------------------------------
# known findings
# --------------------------------------------------------------------------------------
def load_known():
    p = VERIF / "known_findings.json"
    if not p.exists():
        return []
    return json.loads(p.read_text()).get("findings", [])


def triage(prop, h, res, known):
    """Split failed checks into those covered by an OPEN known finding of this property and
    harness, and the rest."""
    open_k = [k for k in known if k.get("status") == "open" and k["property"] == prop
              and k.get("harness") == h.name]
    matched, rest = [], []
    for fc in res["failed_checks"]:
        hit = next((k for k in open_k if re.search(k["match"], fc["desc"])), None)
        (matched if hit else rest).append((fc, hit))
    return matched, rest


# --------------------------------------------------------------------------------------
# one property
# --------------------------------------------------------------------------------------
def select(harnesses, prop, tier, seed):
    # tier=off: kept in the harness file for the record (measured as out of reach), never run
    mine = [h for h in harnesses if prop in h.props and h.tier in ("quick", "thorough")]
    if tier == "quick":
        mine = [h for h in mine if h.tier == "quick"]
        groups = {}
        for h in mine:
            if h.rot:
                groups.setdefault(h.rot, []).append(h)
        drop = set()
        for g, hs in groups.items():
            hs.sort(key=lambda x: x.name)
            keep = seed % 2
            for i, x in enumerate(hs):
                if len(hs) > 1 and i % 2 != keep:
                    drop.add(x.name)
        mine = [h for h in mine if h.name not in drop]
    return mine


def check_property(prop, tier, seed, only=None, jobs=None):
    t0 = time.time()
    files, harnesses = scan_harnesses()
    mine = select(harnesses, prop, tier, seed)
    if only:
        mine = [h for h in mine if h.name in only]
    if not mine:
        log(f"no harness registered for {prop}")
        return 2
    missing = snapshot(files)
    needed_missing = [m for m in missing if any(h.attach == m for h in mine)]
    logdir = WORK / "logs" / f"{prop}-{tier}"
    if logdir.exists():
        shutil.rmtree(logdir)
    logdir.mkdir(parents=True)
    known = load_known()
    results = []
    if needed_missing:
        log(f"INCONCLUSIVE property={prop}: cannot attach, missing in /repo: {needed_missing}")
    guard_fail = False
    if prop == "C02":
        # coverage guard: every accessor of the view types is named by the repository's exerciser
        # list or by the C02 harness file (lib/c02_scan.py)
        sys.path.insert(0, str(VERIF / "lib"))
        import c02_scan
        names, unexercised = c02_scan.scan(WS)
        log(f"[C02] accessor guard: {len(names)} accessors of the view types, not exercised: {unexercised}")
        if unexercised:
            guard_fail = True
            log(f"INCONCLUSIVE property=C02: accessors not exercised by any harness: {unexercised}")
    run_list = [h for h in mine if h.attach not in missing]
    groups = {}
    for h in run_list:
        groups.setdefault(group_key(h), []).append(h)
    log(f"[{prop}] tier={tier} seed={seed} harnesses={[h.name for h in run_list]} groups={len(groups)}")
    with ThreadPoolExecutor(max_workers=max(1, min(2, len(groups)))) as ex:
        futs = [ex.submit(run_group, hs, tier, logdir) for hs in groups.values()]
        for fut in futs:
            for res in fut.result():
                h = res["harness"]
                results.append(res)
                log(f"[{prop}] {h.name}: {res['outcome']} checks={res['checks']} failed={res['failed']} "
                    f"covers={res['covers_sat']}/{res['covers']} solver={res['solver_s']}s "
                    f"rss={res['peak_rss_gb']}GB {res.get('reason', '')}")
    exit_code = 2 if (guard_fail or needed_missing) else 0
    violations = 0
    known_lines = []
    for res in results:
        h = res["harness"]
        if res["outcome"] == "inconclusive":
            exit_code = max(exit_code, 2) if exit_code != 1 else 1
            log(f"INCONCLUSIVE property={prop} harness={h.name}: {res.get('reason')} (log {res['log']})")
        elif res["outcome"] == "fail":
            matched, rest = triage(prop, h, res, known)
            for fc, k in matched:
                line = f"KNOWN-FINDING: property={prop} {k['id']}: {k['what']} [{h.name}: {fc['desc']}]"
                if line not in known_lines:
                    known_lines.append(line)
                    log(line)
            res["known"] = [k["id"] for _, k in matched]
            if not matched and not rest:
                # FAILED without a single parsed failed check: not a pass, not a known finding
                res["outcome"] = "inconclusive"
                res["reason"] = "CBMC reported FAILED but no failed check could be parsed"
                if exit_code != 1:
                    exit_code = 2
                log(f"INCONCLUSIVE property={prop} harness={h.name}: {res['reason']} (log {res['log']})")
                continue
            if rest:
                kd = [k["match"] for _, k in matched]
                if h.replay == "model":
                    rdir = REPLAYS / prop
                    rdir.mkdir(parents=True, exist_ok=True)
                    rfile = rdir / f"{h.name}.txt"
                    rfile.write_text(
                        f"harness {h.name} ({h.file}) uses semantic stubs ({h.stubs}); the counterexample is a\n"
                        "CBMC model and is reported without native replay (DESIGN.md 1.2 step 5).\n"
                        + "\n".join(f"{fc['desc']} @ {fc['loc']}" for fc, _ in rest) + f"\nlog: {res['log']}\n")
                    ok, detail = True, "model-level counterexample (semantic stubs; not replayable natively)"
                else:
                    ok, rfile, detail = replay_counterexample(h, prop, res, logdir, kd)
                res["replay"] = detail
                if ok:
                    violations += 1
                    exit_code = 1
                    for fc, _ in rest:
                        log(f"  failed: {fc['desc']} @ {fc['loc']}")
                    log(f"VIOLATION property={prop} replay={rfile}")
                else:
                    if exit_code != 1:
                        exit_code = 2
                    log(f"INCONCLUSIVE property={prop} harness={h.name}: counterexample did not reproduce natively "
                        f"({detail}); harness or stub suspect (see {rfile})")
            else:
                res["outcome"] = "known"
    write_evidence(prop, tier, seed, results, missing, time.time() - t0, violations, known_lines)
    log(f"[{prop}] exit={exit_code} wall={time.time() - t0:.0f}s")
    return exit_code


def write_evidence(prop, tier, seed, results, missing, wall, violations, known_lines):
    samples = []
    fns, stubs, bounds = [], [], []
    discharged = 0
    queries = 0
    nontrivial = 0
    solver = 0.0
    for r in results:
        h = r["harness"]
        queries += r["checks"] + (r["covers"] or 0)
        solver += r["solver_s"] or 0.0
        nonvac = r["outcome"] in ("pass", "known") and (r["covers"] is None or r["covers_sat"] == r["covers"])
        if nonvac:
            discharged += 1
        if r["outcome"] in ("pass", "known", "fail"):
            # obligations that are reachable in the encoded program and were decided
            nontrivial += max(0, r["checks"] - r.get("unreachable", 0) - r.get("undetermined", 0)) + (r["covers_sat"] or 0)
        samples.append({
            "harness": h.name, "crate": h.crate, "attached_to": h.attach, "outcome": r["outcome"],
            "bound": h.bound, "unwind": h.unwind, "functions_encoded": h.fns, "stubs": h.stubs,
            "cbmc_checks": r["checks"], "failed_checks": [fc["desc"] for fc in r["failed_checks"]][:8],
            "cover_witnesses": [f"{c['desc']}: {c['status']}" for c in r["cover_results"]][:12],
            "solver_s": r["solver_s"], "wall_s": r["wall_s"], "peak_rss_gb": r["peak_rss_gb"],
            "known_findings": r.get("known", []), "reason": r.get("reason", ""),
            "replay": r.get("replay", ""),
        })
        if h.fns:
            fns.append(h.fns)
        if h.stubs:
            stubs.append(f"{h.name}: {h.stubs}")
        if h.bound:
            bounds.append(f"{h.name}: {h.bound}")
    ev = {
        "property_id": prop, "tier": tier, "seed": seed, "level": "model_checking",
        "coverage": {
            "evaluations": max(queries, 1),
            "distinct_nontrivial": nontrivial,
            "rule": ("evaluations = proof obligations (assertions of the code and the harness, automatic safety "
                     "checks, unwinding assertions, cover witnesses) that CBMC generated from the compiled real "
                     "code, summed over the harnesses of this run, each decided by the SAT back end over all "
                     "inputs inside the harness's bound; distinct_nontrivial = those of them that are reachable "
                     "in the encoded program (not reported UNREACHABLE/UNDETERMINED) and were decided, plus "
                     "satisfied cover witnesses, counted from CBMC's result lists of harnesses that reached a "
                     "verdict; harnesses_discharged = harnesses that passed with every vacuity witness SATISFIED"),
            "samples": samples,
            "harnesses_run": len(results),
            "harnesses_discharged": discharged,
            "solver_time_s": round(solver, 1),
            "functions_encoded": fns,
            "bounds": bounds,
            "engine": "Kani 0.68.0 / CBMC 6.11.0 / CaDiCaL; encoding regenerated from /repo working tree on this run",
            "exhaustive": False,
            "known_findings_reported": known_lines,
            "cannot_attach": missing,
        },
        "assumptions": stubs + [
            "bounded: nothing is claimed outside the per-harness bounds listed under coverage.bounds",
            "Kani models the dev profile (debug assertions and overflow checks on)",
        ],
        "wall_s": round(wall, 1),
        "violations": violations,
    }
    evdir = Path(os.environ.get("VERIF_EVIDENCE_DIR", str(VERIF / "evidence")))
    evdir.mkdir(parents=True, exist_ok=True)
    (evdir / f"{prop}.json").write_text(json.dumps(ev, indent=1))


def setup():
    """Warm the shared Kani target dir: build the dependency tree of every crate that carries
    harnesses (one --only-codegen run per crate and feature set)."""
    t0 = time.time()
    files, harnesses = scan_harnesses()
    missing = snapshot(files)
    if missing:
        log(f"setup: attach targets missing in /repo: {missing}")
    seen = {}
    for h in harnesses:
        if h.attach not in missing:
            seen.setdefault((h.crate, h.features), h)
    logdir = WORK / "logs" / "setup"
    logdir.mkdir(parents=True, exist_ok=True)
    failed = []
    for (crate, feats), h in seen.items():
        with BuildLock() as tdir:
            status, out, rc, _ = run_cmd(kani_cmd(h, tdir, ["--only-codegen"]), WS, 5400, 40,
                                         logdir / f"{crate}-{feats or 'default'}.log")
        log(f"setup: {crate} [{feats}]: {status} rc={rc} ({time.time() - t0:.0f}s)")
        if rc != 0:
            failed.append(crate)
            log("\n".join(out.splitlines()[-25:]))
    log(f"setup: done in {time.time() - t0:.0f}s, failed={failed}")
    return 1 if failed else 0


def main(argv):
    import argparse
    ap = argparse.ArgumentParser()
    ap.add_argument("prop")
    ap.add_argument("--tier", default=os.environ.get("VERIF_TIER", "quick"), choices=["quick", "thorough"])
    ap.add_argument("--only", action="append")
    ap.add_argument("--jobs", type=int)
    ap.add_argument("--replay")
    ap.add_argument("--list", action="store_true")
    a = ap.parse_args(argv)
    seed = int(os.environ.get("VERIF_SEED", "0") or 0)
    if a.prop == "setup":
        return setup()
    if a.prop == "compile":
        # fast type-check of every harness module of the crates named with --only
        files, harnesses = scan_harnesses()
        snapshot(files)
        rc = 0
        for crate in a.only or sorted({h.crate for h in harnesses}):
            hs = [h for h in harnesses if h.crate == crate]
            feats = sorted({h.features for h in hs if h.features})
            with BuildLock() as tdir:
                cmd = ["cargo", "kani", "-p", crate, *(["--features", ",".join(feats)] if feats else []), "-Z", "stubbing",
                       "-Z", "unstable-options", "--no-codegen", "--target-dir", str(tdir)]
                (WORK / "logs").mkdir(exist_ok=True)
                status, out, r, _ = run_cmd(cmd, WS, 3600, 40, WORK / "logs" / f"compile-{crate}.log")
            errs = [l for l in out.splitlines() if l.startswith("error")]
            log(f"compile {crate}: rc={r} errors={len(errs)}")
            if r != 0:
                rc = 2
                m = re.search(r"^error", out, re.M)
                log(out[m.start():m.start() + 8000] if m else out[-3000:])
        return rc
    if a.list:
        _, hs = scan_harnesses()
        for h in hs:
            if a.prop in ("all", *h.props):
                print(h.name, h.props, h.tier, h.crate, h.cap, h.bound)
        return 0
    if a.replay:
        print(Path(a.replay).read_text())
        return 0
    return check_property(a.prop, a.tier, seed, a.only, a.jobs)


if __name__ == "__main__":
    sys.exit(main(sys.argv[1:]))
