#!/usr/bin/env python3
"""C02 guard: every safe `pub fn` (and generated field accessor) of the view types must be named in
the repository's SCMP/UDP exerciser lists (the ones a quick harness runs) or in /verif/harness/sciparse/c02_views.rs; otherwise the C02 check
is inconclusive (exit 2) instead of silently losing coverage. Not a verdict: a coverage guard."""
import re, sys
from pathlib import Path

def scan(repo):
    src = Path(repo) / "crates/libs/sciparse/src"
    view_files = [
        "proto/header/view.rs", "proto/dataplane_path/standard/view.rs", "proto/dataplane_path/onehop/view.rs",
        "proto/packet/view.rs", "proto/payload/udp/view.rs", "proto/payload/scmp/view.rs",
    ]
    names = {}
    for vf in view_files:
        p = src / vf
        if not p.is_file():
            continue
        text = p.read_text()
        # stop at the test module
        text = re.split(r"#\[cfg\(test\)\]", text)[0]
        for m in re.finditer(r"^\s*pub fn (\w+)\s*[<(]", text, re.M):
            names.setdefault(m.group(1), vf)
        for m in re.finditer(r"gen_field_(?:read|write)!\(\s*(\w+)\s*,", text):
            names.setdefault(m.group(1), vf)
    used = ""
    # only the exerciser lists that a registered harness really runs count: the SCMP and UDP payload
    # exercisers (quick tier). The header, packet and path exercisers gave no CBMC verdict (tier=off
    # / thorough only), so their accessors must be named in the C02 harness file itself.
    fz = src / "util/fuzz/view_function_checks"
    run_lists = [fz / "payload.rs", fz / "payload/udp.rs", fz / "payload/scmp.rs"]
    for f in run_lists + [Path("/verif/harness/sciparse/c02_views.rs")]:
        if f.is_file():
            used += f.read_text()
    ignore = {"new", "fmt", "next", "len", "is_empty", "iter", "size_hint", "annotations"}
    missing = sorted(n for n in names if n not in ignore and not re.search(r"\b" + re.escape(n) + r"\b", used))
    return names, missing

if __name__ == "__main__":
    names, missing = scan(sys.argv[1] if len(sys.argv) > 1 else "/repo")
    print(f"view accessors found: {len(names)}; not exercised: {missing}")
    sys.exit(2 if missing else 0)
