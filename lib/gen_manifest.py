#!/usr/bin/env python3
"""Writes /verif/MANIFEST.json from the table below (kept in one place so it stays valid)."""
import json, sys
from pathlib import Path

V = Path("/verif")
BASELINE_OFF = ("cd /repo && cargo nextest run --workspace --no-fail-fast --offline --test-threads 8 "
                "|| cargo test --workspace --no-fail-fast --offline")

TECH = "bounded model checking of the compiled real code: Kani 0.68 -> CBMC 6.11 -> CaDiCaL (SAT), symbolic inputs, unwinding assertions on"

CLAIMS = {}   # filled by the per-property table in claims.json
NA = {}

def main():
    table = json.loads((V / "claims.json").read_text())
    checks = []
    for pid, c in sorted(table["claims"].items()):
        checks.append({
            "property_id": pid,
            "quick_cmd": f"bin/check {pid} --tier quick",
            "thorough_cmd": f"bin/check {pid} --tier thorough",
            "evidence_file": f"/verif/evidence/{pid}.json",
            "replay_cmd_template": f"bin/check {pid} --replay {{path}}",
            "engine": "kani-cbmc",
            "level_claimed": {"category": "model_checking", "text": c["text"], "design_ref": c["design_ref"]},
            "level_note": c["note"],
            "technique": TECH,
        })
    m = {
        "version": 1,
        "setup_cmd": "bin/setup",
        "hooks": {
            "guard": "cfg(kani) - set only by cargo kani; harness modules are appended to a snapshot copy of /repo under /verif/work/ws, /repo itself carries no hook",
            "enable": "bin/check copies /repo's working tree to /verif/work/ws and appends `#[cfg(kani)] #[path=\"/verif/harness/...\"] mod ...;` lines there",
            "baseline_off_cmd": BASELINE_OFF,
            "source_commits": [],
            "add_only": True,
        },
        "engines": [{
            "name": "kani-cbmc",
            "path": "/verif/lib/vrun.py",
            "serves_properties": sorted(table["claims"].keys()),
            "kind_free_text": "Kani 0.68.0 (CBMC 6.11.0, CaDiCaL) over harness modules injected into a snapshot of /repo; native replay of counterexamples through cargo kani playback",
        }],
        "checks": checks,
        "not_applicable": [{"property_id": k, "reason": v} for k, v in sorted(table["not_applicable"].items())],
        "notes": table.get("notes", ""),
    }
    (V / "MANIFEST.json").write_text(json.dumps(m, indent=1) + "\n")
    try:
        import jsonschema
        jsonschema.validate(m, json.loads(Path("/root/.vp/MANIFEST.schema.json").read_text()))
        print("MANIFEST.json valid;", len(checks), "checks,", len(m["not_applicable"]), "not applicable")
    except ImportError:
        print("written (jsonschema not available for validation)")

if __name__ == "__main__":
    main()
