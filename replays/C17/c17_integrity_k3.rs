// replay for property C17, harness c17_integrity_k3 (/verif/harness/anapaya-edge-tun/c17_defrag.rs)
// failed checks reported by CBMC:
//   "emitted byte not covered by any accepted frame of this packet" @ ../../harness/anapaya-edge-tun/c17_defrag.rs:82:17 in function fragmenting::verif_c17::integrity::<3>
//! verif-attach: file=crates/libs/anapaya-edge-tun/src/fragmenting.rs crate=anapaya-edge-tun mod=verif_c17
//!
//! C17 — tunnel reassembly emits only intact packets, at most once, in any frame order.
//! Injected as a child module of `fragmenting`, so it drives the private `DefragQueue` /
//! `DefragmenterInner` with their real 65 535-byte assembly slots.
#![allow(dead_code, unused_imports, clippy::all)]
use super::*;

/// largest fragment payload a harness frame may carry (> MIN_PAYLOAD_SIZE = 256 so that several
/// window sizes, and last fragments longer than the window, are inside the bound)
const PAY: usize = 300;

fn inc_stub<P: prometheus::core::Atomic>(_c: &prometheus::core::GenericCounter<P>) {}
fn inc_by_stub<P: prometheus::core::Atomic>(_c: &prometheus::core::GenericCounter<P>, _v: P::T) {}

/// Metrics objects are never dereferenced: every counter method the module calls is stubbed.
fn null_defrag_metrics() -> std::mem::ManuallyDrop<DefragmentMetrics> {
    std::mem::ManuallyDrop::new(unsafe { std::mem::MaybeUninit::zeroed().assume_init() })
}

#[derive(Clone, Copy)]
struct AnyFrame {
    off: usize,
    len: usize,
    last: bool,
    flags: u16,
}

/// Scalar frame parameters are drawn before the bulk payload bytes (replay ordering rule of
/// DESIGN.md 1.2: values the solver may slice away come last).
fn any_frame_params() -> AnyFrame {
    let len: usize = kani::any();
    kani::assume(len <= PAY);
    let off: u16 = kani::any();
    let last: bool = kani::any();
    let reserved: u16 = kani::any();
    let flags = if last { FragmentFlags::LAST as u16 | (reserved & 0x7fff) } else { reserved & 0x7fff };
    AnyFrame { off: off as usize, len, last, flags }
}

fn mk_frame<'a>(buf: &'a [u8; PAY], so: u64, d: &AnyFrame) -> FragmentFrameRef<'a> {
    let header = FragmentFrameHeader { stream_offset: so, frame_offset: d.off as u16, flags: d.flags };
    FragmentFrameRef { header, fragment: &buf[..d.len] }
}

/// K arbitrary frames into one slot; if the K-th completes a packet, a symbolic byte position of
/// the emitted payload must carry the byte of an accepted frame of this packet covering it.
fn integrity<const K: usize>() {
    let mut q = DefragQueue::new();
    let so: u64 = kani::any();
    let j: usize = kani::any();
    let mut ds = [AnyFrame { off: 0, len: 0, last: false, flags: 0 }; K];
    let mut k = 0;
    while k < K {
        ds[k] = any_frame_params();
        k += 1;
    }
    let bufs: [[u8; PAY]; K] = kani::any();
    let mut covered = false;
    let mut k = 0;
    while k < K {
        let d = ds[k];
        let f = mk_frame(&bufs[k], so, &d);
        if k == 0 {
            q.init(&f);
        }
        let r = q.ingest_frame(&f);
        match r {
            Ok(None) => {
                kani::assume(k + 1 < K);
                if d.off <= j && j < d.off + d.len {
                    covered = true;
                }
            }
            Ok(Some(p)) => {
                kani::assume(k + 1 == K);
                kani::assume(j < p.payload.len());
                if d.off <= j && j < d.off + d.len {
                    covered = true;
                }
                kani::cover!(K > 1, "packet completed by the final frame");
                assert!(covered, "emitted byte not covered by any accepted frame of this packet");
                return;
            }
            Err(_) => {
                // a rejected frame contributes nothing; the slot may have been given up
                kani::assume(k + 1 < K);
            }
        }
        k += 1;
    }
}

// verif: prop=C17 tier=quick cap=400 bound="one slot (real 65535-byte buffer), 2 arbitrary frames: any offset/LAST/reserved bits, payload length <= 300, any bytes" fns="DefragQueue::{new,init,ingest_frame} and its completion test" stubs="none"
#[kani::proof]
#[kani::unwind(3)]
fn c17_integrity_k2() {
    integrity::<2>()
}

// verif: prop=C17 tier=quick cap=900 bound="one slot, 3 arbitrary frames (rejected frames interleaved), payload length <= 300" fns="DefragQueue::{new,init,ingest_frame} and its completion test" stubs="none"
#[kani::proof]
#[kani::unwind(4)]
fn c17_integrity_k3() {
    integrity::<3>()
}

// verif: prop=C17 tier=thorough cap=3000 mem=24 bound="one slot, 4 arbitrary frames, payload length <= 300" fns="DefragQueue::{new,init,ingest_frame} and its completion test" stubs="none"
#[kani::proof]
#[kani::unwind(5)]
fn c17_integrity_k4() {
    integrity::<4>()
}

/// Same obligation one level up: frames of two packets (two stream offsets) through the real
/// queue selection with Q slots; a packet emitted for stream `so` only contains bytes of accepted
/// frames carrying `so` that arrived since the slot was (re)initialised for it.
fn integrity_defragmenter<const K: usize, const Q: usize>() {
    let m = null_defrag_metrics();
    let mut d = DefragmenterInner { queues: Vec::new(), last_histogram_update: unsafe { std::mem::zeroed() } };
    let mut i = 0;
    while i < Q {
        d.queues.push(DefragQueue::new());
        i += 1;
    }
    let sos: [u64; 2] = kani::any();
    kani::assume(sos[0] != sos[1] && sos[0] != u64::MAX && sos[1] != u64::MAX);
    let bufs: [[u8; PAY + 16]; K] = kani::any();
    let j: usize = kani::any();
    let watch = sos[0];
    let mut covered = false;
    let mut k = 0;
    while k < K {
        let which: bool = kani::any();
        let so = if which { sos[1] } else { sos[0] };
        let len: usize = kani::any();
        kani::assume(len <= PAY);
        let off: u16 = kani::any();
        let last: bool = kani::any();
        let mut raw = bufs[k];
        let h = FragmentFrameHeader { stream_offset: so, frame_offset: off, flags: if last { FragmentFlags::LAST as u16 } else { 0 } };
        h.copy_to_slice(&mut raw[..16]);
        // a slot evicted and re-initialised for `watch` starts a new packet: coverage restarts
        let had_slot = d.queues.iter().any(|q| q.stream_offset == watch && !q.is_idle());
        let r = d.recv_fallible(&m, &raw[..16 + len]);
        let single = last && off == 0;
        match r {
            Ok(None) => {
                kani::assume(k + 1 < K);
                if so == watch {
                    if !had_slot {
                        covered = false;
                    }
                    if (off as usize) <= j && j < off as usize + len {
                        covered = true;
                    }
                }
            }
            Ok(Some(p)) => {
                kani::assume(k + 1 == K && so == watch && !single);
                kani::assume(j < p.payload.len());
                assert!(p.stream_offset == watch);
                if !had_slot {
                    covered = false;
                }
                if (off as usize) <= j && j < off as usize + len {
                    covered = true;
                }
                kani::cover!(true, "multi-frame packet completed through the defragmenter");
                assert!(covered, "emitted byte not covered by an accepted frame of the same packet");
                std::mem::forget(d);
                return;
            }
            Err(_) => {
                kani::assume(k + 1 < K);
                if so == watch && !d.queues.iter().any(|q| q.stream_offset == watch && !q.is_idle()) {
                    covered = false;
                }
            }
        }
        k += 1;
    }
    std::mem::forget(d);
}

// verif: prop=C17 tier=thorough cap=3000 mem=24 bound="DefragmenterInner with 2 slots, 3 arbitrary frames over 2 stream offsets" fns="DefragmenterInner::{recv_fallible,select_queue},DefragQueue::*" stubs="prometheus counters inc/inc_by -> no-op"
#[kani::proof]
#[kani::unwind(4)]
#[kani::stub(prometheus::core::GenericCounter::inc, inc_stub)]
#[kani::stub(prometheus::core::GenericCounter::inc_by, inc_by_stub)]
fn c17_interleave_q2_k3() {
    integrity_defragmenter::<3, 2>()
}

/// Totality and bounded state: arbitrary byte strings as frames never panic, never change the
/// number of slots, and a returned packet never exceeds MAX_PACKET_SIZE.
fn total<const K: usize, const Q: usize>() {
    let m = null_defrag_metrics();
    let mut d = DefragmenterInner { queues: Vec::new(), last_histogram_update: unsafe { std::mem::zeroed() } };
    let mut i = 0;
    while i < Q {
        d.queues.push(DefragQueue::new());
        i += 1;
    }
    let bufs: [[u8; PAY + 16]; K] = kani::any();
    let mut k = 0;
    while k < K {
        let len: usize = kani::any();
        kani::assume(len <= PAY + 16);
        let r = d.recv_fallible(&m, &bufs[k][..len]);
        if let Ok(Some(p)) = &r {
            assert!(p.payload.len() <= MAX_PACKET_SIZE);
        }
        if len < 16 {
            assert!(matches!(r, Err(DefragmentInsertError::InvalidHeader)));
        }
        kani::cover!(matches!(r, Err(DefragmentInsertError::TooOld(_))), "too-old rejection reachable");
        assert!(d.queues.len() == Q);
        k += 1;
    }
    std::mem::forget(d);
}

// verif: prop=C17 tier=quick cap=600 bound="2 slots, 2 arbitrary byte strings <= 316 B as frames (incl. shorter than a header)" fns="DefragmenterInner::{recv_fallible,select_queue},FragmentFrameRef::from_slice,DefragQueue::*" stubs="prometheus counters inc/inc_by -> no-op"
#[kani::proof]
#[kani::unwind(4)]
#[kani::stub(prometheus::core::GenericCounter::inc, inc_stub)]
#[kani::stub(prometheus::core::GenericCounter::inc_by, inc_by_stub)]
fn c17_total_q2_k2() {
    total::<2, 2>()
}

// verif: prop=C17 tier=thorough cap=3000 mem=24 bound="2 slots, 3 arbitrary byte strings <= 316 B as frames" fns="DefragmenterInner::{recv_fallible,select_queue},FragmentFrameRef::from_slice,DefragQueue::*" stubs="prometheus counters inc/inc_by -> no-op"
#[kani::proof]
#[kani::unwind(4)]
#[kani::stub(prometheus::core::GenericCounter::inc, inc_stub)]
#[kani::stub(prometheus::core::GenericCounter::inc_by, inc_by_stub)]
fn c17_total_q2_k3() {
    total::<3, 2>()
}

/// Honest sender: a packet of L bytes cut into n = ceil(L/W) frames by the documented protocol
/// (offset i*W, LAST on the final frame). N deliveries, each of a symbolic frame index (so any
/// order and any duplication), every frame delivered at least once: the packet comes out exactly
/// once and byte-identical; nothing else comes out. W is the minimum window (256): offsets are
/// then constants per frame index, which keeps the copies into the 64 KiB slot cheap for CBMC.
fn honest<const N: usize, const MAXF: usize>() {
    const W: usize = MIN_PAYLOAD_SIZE;
    let l: usize = kani::any();
    kani::assume(l > W && l <= MAXF * W);
    let n = l.div_ceil(W);
    let so: u64 = kani::any();
    let j: usize = kani::any();
    kani::assume(j < l);
    let mut order = [0usize; N];
    let mut t = 0;
    while t < N {
        order[t] = kani::any();
        kani::assume(order[t] < n);
        t += 1;
    }
    let data: [u8; 4 * W] = kani::any();
    let mut q = DefragQueue::new();
    let mut seen = [false; MAXF];
    let mut emitted = 0usize;
    let mut t = 0;
    while t < N {
        let i = order[t];
        seen[i] = true;
        // constant offset per branch
        let (off, full): (usize, &[u8]) = match i {
            0 => (0, &data[0..W]),
            1 => (W, &data[W..2 * W]),
            2 => (2 * W, &data[2 * W..3 * W]),
            _ => (3 * W, &data[3 * W..4 * W]),
        };
        let len = if i + 1 == n { l - off } else { W };
        let f = FragmentFrameRef {
            header: FragmentFrameHeader {
                stream_offset: so,
                frame_offset: off as u16,
                flags: if i + 1 == n { FragmentFlags::LAST as u16 } else { 0 },
            },
            fragment: &full[..len],
        };
        if t == 0 {
            q.init(&f);
        }
        match q.ingest_frame(&f) {
            Ok(Some(p)) => {
                emitted += 1;
                assert!(p.stream_offset == so);
                assert!(p.payload.len() == l, "reassembled length differs from the sent packet");
                assert!(p.payload[j] == data[j], "reassembled byte differs from the sent packet");
                let mut x = 0;
                while x < MAXF {
                    if x < n {
                        assert!(seen[x], "packet emitted before all of its frames arrived");
                    }
                    x += 1;
                }
            }
            Ok(None) => {}
            Err(e) => {
                assert!(
                    matches!(e, DefragmentInsertError::Duplicate(_) | DefragmentInsertError::QueueNotAccepting),
                    "honest frame rejected"
                );
            }
        }
        t += 1;
    }
    let mut all = true;
    let mut x = 0;
    while x < MAXF {
        if x < n && !seen[x] {
            all = false;
        }
        x += 1;
    }
    assert!(emitted <= 1, "packet emitted twice");
    if all {
        kani::cover!(n == MAXF, "largest frame count delivered completely");
        assert!(emitted == 1, "all frames delivered but packet not emitted");
    }
}

// verif: prop=C17 tier=quick cap=900 bound="honest sender, window 256, packet of 257..768 bytes (2..3 frames), 4 deliveries in any order with duplicates" fns="DefragQueue::{init,ingest_frame}" stubs="none (frames built from the module's documented wire protocol)"
#[kani::proof]
#[kani::unwind(5)]
fn c17_honest_f3_n4() {
    honest::<4, 3>()
}

// verif: prop=C17 tier=thorough cap=3000 mem=24 bound="honest sender, window 256, packet of 257..1024 bytes (2..4 frames), 5 deliveries in any order with duplicates" fns="DefragQueue::{init,ingest_frame}" stubs="none"
#[kani::proof]
#[kani::unwind(6)]
fn c17_honest_f4_n5() {
    honest::<5, 4>()
}

#[cfg(test)]
mod verif_playback {
    use super::*;
/// Test generated for harness `fragmenting::verif_c17::c17_integrity_k3` 
///
/// Check for `cover`: "packet completed by the final frame"

#[test]
fn kani_concrete_playback_c17_integrity_k3_5255044989487252013() {
    let concrete_vals: Vec<Vec<u8>> = vec![
        // 0
        vec![0, 0, 0, 0, 0, 0, 0, 0],
        // 2
        vec![2, 0, 0, 0, 0, 0, 0, 0],
        // 259
        vec![3, 1, 0, 0, 0, 0, 0, 0],
        // 49728
        vec![64, 194],
        // 0
        vec![0],
        // 65535
        vec![255, 255],
        // 259
        vec![3, 1, 0, 0, 0, 0, 0, 0],
        // 49728
        vec![64, 194],
        // 0
        vec![0],
        // 65535
        vec![255, 255],
        // 3
        vec![3, 0, 0, 0, 0, 0, 0, 0],
        // 0
        vec![0, 0],
        // 1
        vec![1],
        // 65535
        vec![255, 255],
    ];
    let mut concrete_vals = concrete_vals;
    concrete_vals.extend(std::iter::repeat(vec![0u8]).take(8192));
    kani::concrete_playback_run(concrete_vals, c17_integrity_k3);
}
```
Concrete playback unit test for `fragmenting::verif_c17::c17_integrity_k3`:
```
/// Test generated for harness `fragmenting::verif_c17::c17_integrity_k3` 
///
/// Check for `assertion`: ""emitted byte not covered by any accepted frame of this packet""

#[test]
fn kani_concrete_playback_c17_integrity_k3_2306866065369440199() {
    let concrete_vals: Vec<Vec<u8>> = vec![
        // 18446744073709551615
        vec![255, 255, 255, 255, 255, 255, 255, 255],
        // 127
        vec![127, 0, 0, 0, 0, 0, 0, 0],
        // 255
        vec![255, 0, 0, 0, 0, 0, 0, 0],
        // 65152
        vec![128, 254],
        // 1
        vec![1],
        // 65535
        vec![255, 255],
        // 194
        vec![194, 0, 0, 0, 0, 0, 0, 0],
        // 0
        vec![0, 0],
        // 1
        vec![1],
        // 65535
        vec![255, 255],
        // 287
        vec![31, 1, 0, 0, 0, 0, 0, 0],
        // 26404
        vec![36, 103],
        // 0
        vec![0],
        // 65535
        vec![255, 255],
    ];
    let mut concrete_vals = concrete_vals;
    concrete_vals.extend(std::iter::repeat(vec![0u8]).take(8192));
    kani::concrete_playback_run(concrete_vals, c17_integrity_k3);
}
}

// native replay (sliced trace; cargo kani playback, dev profile, real code):
//   kani_concrete_playback_c17_integrity_k3_2306866065369440199: did not reproduce (cover:packet completed by the final frame)
// re-run: bin/check C17 --replay /verif/replays/C17/c17_integrity_k3.rs
